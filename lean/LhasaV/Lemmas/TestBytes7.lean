import LhasaV.Lemmas.TestBytes6
/-!
# C07 on bytes (part 7): `lha t` on a TRUNCATED archive — (T3)

`truncated pre e k`: the bytes of `archiveWith stored (pre ++ [e])` cut so that only the first `k`
data bytes of the last member `e` are left (`truncated_eq_take`: it IS a prefix of the archive;
taking `pre ++ [e]` to be an initial segment of a longer entry list, this is "the archive cut
inside the data of any member, everything after it lost").

`null_avail_le`: the null decoder never hands out more bytes than are physically in its source —
also when the source promises more than it has (a request that crosses the physical end fails).

**`test_detects_truncation`**: for `k` less than the member's length, `lha t` reports the members
before it good, the cut member bad, and exits with status 1.
-/
set_option linter.unusedSimpArgs false
namespace LhasaV.TestBytes
open LhasaV LhasaV.Header LhasaV.Extract LhasaV.GlobFs LhasaV.Contain LhasaV.ExtractTree
open LhasaV.ExtractTree.Sample LhasaV.Spec.HeaderEnc LhasaV.Reader LhasaV.ReaderIndep LhasaV.ArchiveOf
open LhasaV.PrintList LhasaV.MacProps LhasaV.Messages LhasaV.CrcBurst

/-! ## the null decoder on a source that is shorter than promised -/

/-- one callback request: what it returns and what is physically left never exceed what was
physically left before -/
theorem src_read_le (s : Src) (req : Nat) (hz : s.zeroFill = false) :
    (s.read req).2.zeroFill = false ∧
    (s.read req).1.length + ((s.read req).2.data.size - (s.read req).2.pos) ≤ s.data.size - s.pos := by
  unfold Src.read
  simp only [hz, Bool.false_eq_true, if_false, and_false]
  split
  · exact ⟨rfl, by simp⟩
  · rename_i h
    refine ⟨rfl, ?_⟩
    have hr : s.remaining = s.data.size - s.pos := rfl
    simp only [Array.toList_extract, List.extract_eq_take_drop, List.length_take, List.length_drop,
      Array.length_toList]
    omega

/-- **the null decoder hands out at most the bytes physically present** -/
theorem null_avail_le (m : Nat) : ∀ (k : Nat) (s : Src), s.zeroFill = false → s.data.size - s.pos = k →
    (Wrap.avail (Dec.total Null.dec) m (.ok s)).length ≤ k := by
  intro k
  induction k using Nat.strongRecOn generalizing m with
  | _ k ih =>
    intro s hz hk
    obtain ⟨hz', hle⟩ := src_read_le s Gen.nullBlockReadSize hz
    have hread : Null.dec.read s = .ok ((s.read Gen.nullBlockReadSize).1, (s.read Gen.nullBlockReadSize).2) := rfl
    by_cases hout : (s.read Gen.nullBlockReadSize).1 = []
    · rw [hout] at hread
      rw [LzRoundTrip.avail_end Null.dec s _ m hread]
      exact Nat.zero_le _
    · rw [LzRoundTrip.avail_step Null.dec s _ _ m hread hout]
      have hpos : 0 < (s.read Gen.nullBlockReadSize).1.length := List.length_pos_iff.mpr hout
      have := ih _ (by omega) (m - (s.read Gen.nullBlockReadSize).1.length) (s.read Gen.nullBlockReadSize).2 hz' rfl
      rw [List.length_take, List.length_append]
      omega

/-- a stored member of which only `comp` is there decodes to at most `|comp|` bytes -/
theorem decodedOf_stored_le (data comp : Bytes) : (decodedOf stored data comp).length ≤ comp.length := by
  rw [decodedOf_stored_eq]
  exact null_avail_le data.length comp.length (srcOf stored data comp) rfl (by simp [srcOf])

/-- **a stored member cut short is never good** (C07 `truncation_bad_all` on bytes) -/
theorem goodOf_short (data comp : Bytes) (h : comp.length < data.length) : goodOf stored data comp = false := by
  cases hg : goodOf stored data comp with
  | false => rfl
  | true =>
    rw [goodOf_iff] at hg
    have := decodedOf_stored_le data comp
    omega

/-! ## the truncated archive -/

/-- **the truncated archive**: the members `pre` complete, then the header of `e` complete and only
the first `k` bytes of its data -/
def truncated (pre : List ExtractTree.Entry) (e : ExtractTree.Entry) (k : Nat) : Array UInt8 :=
  (flatI stored (pre.map (intact stored) ++ [⟨e, (dataOf stored e).take k⟩])).toArray

/-- it is the archive `archiveWith stored (pre ++ [e])` with its last `|data| − k` bytes cut off -/
theorem truncated_eq_take (pre : List ExtractTree.Entry) (p : Fs.Path) (data : Bytes) (perms : Option Nat)
    (t : Nat) (k : Nat) (hk : k ≤ data.length) :
    (truncated pre (.file p data perms t) k).toList =
      (archiveWith stored (pre ++ [.file p data perms t])).toList.take
        ((archiveWith stored (pre ++ [.file p data perms t])).size - (data.length - k)) := by
  have hA : (archiveWith stored (pre ++ [.file p data perms t])).toList =
      (flat stored pre ++ encode (fieldsOf stored (.file p data perms t))) ++ data := by
    have := flatI_intact stored (pre ++ [.file p data perms t])
    rw [List.map_append, List.map_cons, List.map_nil, flatI_append, flatI_cons, flatI_nil, flatI_intact,
      List.append_nil] at this
    rw [List.append_assoc]
    exact this.symm
  have hT : (truncated pre (.file p data perms t) k).toList =
      (flat stored pre ++ encode (fieldsOf stored (.file p data perms t))) ++ data.take k := by
    unfold truncated
    rw [flatI_append, flatI_cons, flatI_nil, flatI_intact, List.append_nil, List.append_assoc]
    rfl
  rw [hT, ← Array.length_toList, hA, List.length_append]
  have : (flat stored pre ++ encode (fieldsOf stored (.file p data perms t))).length + data.length -
      (data.length - k) = (flat stored pre ++ encode (fieldsOf stored (.file p data perms t))).length + k := by
    omega
  rw [this, List.take_length_add_append]

/-! ## (T3) -/

/-- **(T3) `lha t` detects a truncated archive, end to end on BYTES.**  Take any list of clean,
encodable entries `pre ++ [file]` (any order), the archive `archiveWith stored …`, and cut it
anywhere inside the data of the last member: only `k < |data|` of its data bytes are left
(`truncated_eq_take`; `k = 0` — cut right behind the header — included).  Then `lha t…` (not the
dry run) on these bytes: every selected member before the cut is reported good, the cut member —
if selected — BAD (`(header, false)`, the line `name - CRC error` after a progress bar that stops
where the decoded bytes stop), nothing on standard error, no fault, no abort, and the exit status
is 1 (0 only when the wildcards pass the cut member over). -/
theorem test_detects_truncation (pre : List ExtractTree.Entry) (p : Fs.Path) (data : Bytes)
    (perms : Option Nat) (t : Nat) (k : Nat)
    (hok : ∀ e ∈ pre ++ [.file p data perms t], EntryOk e)
    (henc : Encodable (pre ++ [.file p data perms t]))
    (hk : k < data.length)
    (o : Opts) (hdry : o.dryRun = false) (fs : Fs.St) (answers : Bytes) :
    (Messages.run .test (truncated pre (.file p data perms t) k) o fs answers).trace.reverse =
      (pre.filter (selected o.filters)).map (fun e => (hdrOf stored e, true)) ++
      (if selected o.filters (.file p data perms t) then [(hdrOf stored (.file p data perms t), false)] else []) ∧
    (Messages.run .test (truncated pre (.file p data perms t) k) o fs answers).stdout =
      (pre.filter (selected o.filters)).flatMap (goodLine o stored) ++
      (if selected o.filters (.file p data perms t) then
        badLine o stored (decodedOf stored data (data.take k)).length (.file p data perms t) else []) ∧
    (decodedOf stored data (data.take k)).length ≤ k ∧
    (Messages.run .test (truncated pre (.file p data perms t) k) o fs answers).stderr = [] ∧
    (Messages.run .test (truncated pre (.file p data perms t) k) o fs answers).aborted = false ∧
    (Messages.run .test (truncated pre (.file p data perms t) k) o fs answers).fault = false ∧
    (Messages.run .test (truncated pre (.file p data perms t) k) o fs answers).x.fs = fs ∧
    Messages.exitStatus (Messages.run .test (truncated pre (.file p data perms t) k) o fs answers) =
      if selected o.filters (.file p data perms t) then 1 else 0 := by
  have hpk := packs_stored henc
  have hall := allOk_of_entries hok henc hpk
  have hallpre : AllOk stored pre := fun e he => hall e (List.mem_append_left _ he)
  have hpkpre : Packs stored pre := fun e he => (hallpre e he).2.2
  obtain ⟨ek, ee, ep⟩ := hall (.file p data perms t) (by simp)
  have hd : dataOf stored (.file p data perms t) = data := rfl
  have htl : (data.take k).length = k := by rw [List.length_take]; omega
  have hits : ItemsOk stored (pre.map (intact stored) ++ [⟨.file p data perms t, data.take k⟩]) := by
    refine itemsOk_append (itemsOk_intact hallpre) ⟨⟨ek, ee, ep, ?_⟩, fun h => absurd rfl h, trivial⟩
      (fun _ => full_intact stored pre)
    show (data.take k).length ≤ data.length
    omega
  obtain ⟨h1, h2, h3, _, h5, h6, h7⟩ := test_items stored _ hits o fs answers
  have hE := exit_items stored _ hits o fs answers
  obtain ⟨a1, a2, a3⟩ := intact_part o hpkpre
  have hbad : goodOf stored data (data.take k) = false := goodOf_short data _ (by omega)
  have hsel : sel o ⟨.file p data perms t, data.take k⟩ = selected o.filters (.file p data perms t) := rfl
  have hkk : testOk o stored ⟨.file p data perms t, data.take k⟩ = false := by
    simp [testOk, hdry, hbad]
  have hout : testOut o stored ⟨.file p data perms t, data.take k⟩ =
      badLine o stored (decodedOf stored data (data.take k)).length (.file p data perms t) := by
    simp only [testOut, hdry, Bool.false_eq_true, if_false, hbad, badLine, blocksOf]
  have hdl : (decodedOf stored data (data.take k)).length ≤ k := by
    have := decodedOf_stored_le data (data.take k)
    omega
  unfold truncated
  rw [hd]
  rw [List.filter_append, List.filter_cons, hsel, List.filter_nil] at h1 h2 hE
  refine ⟨?_, ?_, hdl, h3, h5, h6, h7, ?_⟩
  · rw [h1, List.map_append, a1]
    cases selected o.filters (.file p data perms t)
    · simp only [Bool.false_eq_true, if_false, List.map_nil]
    · simp only [if_true, List.map_cons, List.map_nil, hkk]
  · rw [h2, List.flatMap_append, a2]
    cases selected o.filters (.file p data perms t)
    · simp only [Bool.false_eq_true, if_false, List.flatMap_nil]
    · simp only [if_true, List.flatMap_cons, List.flatMap_nil, List.append_nil, hout]
  · rw [hE, List.all_append, a3]
    cases selected o.filters (.file p data perms t)
    · simp only [Bool.false_eq_true, if_false, List.all_nil, Bool.and_self, if_true]
    · simp only [if_true, List.all_cons, hkk, Bool.false_and, Bool.and_false, Bool.false_eq_true, if_false]

end LhasaV.TestBytes
