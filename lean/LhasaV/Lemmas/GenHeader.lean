import LhasaV.Model.Header
/-!
Translator tie for `os9_to_unix_permissions` of lib/lha_file_header.c: `gen/ext_header.c` evaluates the function of the working
tree for all 65 536 permission words on every run, emits its table over the low byte and whether the high byte is ignored; the
kernel compares the table with the model's `os9ToUnix`, which is shown to depend on the low byte only.
-/
namespace LhasaV.GenHeader
open LhasaV LhasaV.Header

/-- the permission word `os9ToUnix` computes, as a function of the OS-9 word -/
def os9f (p : Nat) : Nat :=
  bit p 7 * 16384 + bit p 0 * 256 + bit p 1 * 128 + bit p 2 * 64 + bit p 3 * 32 + bit p 4 * 16 + bit p 5 * 8
    + bit p 3 * 4 + bit p 4 * 2 + bit p 5

theorem os9f_low (p : Nat) : os9f p = os9f (p % 256) := by
  simp only [os9f, bit, show (2:Nat)^7 = 128 from rfl, show (2:Nat)^0 = 1 from rfl, show (2:Nat)^1 = 2 from rfl,
    show (2:Nat)^2 = 4 from rfl, show (2:Nat)^3 = 8 from rfl, show (2:Nat)^4 = 16 from rfl, show (2:Nat)^5 = 32 from rfl]
  omega

theorem os9f_table : ∀ q : Fin 256, os9f q.val = Gen.os9ToUnixTable.getD q.val 0 := by decide +kernel

/-- for EVERY header: the Unix permission word the model derives from the OS-9 word is the entry of the table evaluated from the
source; the source ignores the high byte (checked by the extractor over all 65 536 words) as the model does (`os9f_low`) -/
theorem os9_matches_source (h : Hdr) :
    (os9ToUnix h).unixPerms = Gen.os9ToUnixTable.getD (h.os9Perms % 256) 0 ∧ Gen.os9HighByteIgnored = 1
    ∧ Gen.os9SetsUnixPermsFlagOnly = 1 := by
  refine ⟨?_, by decide, by decide⟩
  have : (os9ToUnix h).unixPerms = os9f h.os9Perms := rfl
  rw [this, os9f_low]
  exact os9f_table ⟨h.os9Perms % 256, Nat.mod_lt _ (by decide)⟩

end LhasaV.GenHeader
