import LhasaV.Model.LhNew
import LhasaV.Spec.LhNewEnc
import LhasaV.Lemmas.Bits
import LhasaV.Lemmas.LzRoundTrip
import LhasaV.Lemmas.TreeCanon
import LhasaV.Lemmas.LhNewCmd
import LhasaV.Lemmas.LhNewFmt
/-!
Round trip of the `lh_new_decoder.c` model, part 1: code-length values, the
`TreeFor` predicate (a decoding tree realises a transmitted table), and the
array bookkeeping of the three table readers.
-/
namespace LhasaV.LhNewRT
open LhasaV LhasaV.Spec LhasaV.Spec.LhNewEnc LhasaV.Spec.Lz77 LhasaV.LzRoundTrip

/-! ## Layer 1: code-length values -/

theorem bitsLeft_eq (r : Bits) : LhNew.bitsLeft r = (Bits.stream r).length := by
  rw [Bits.length_stream]; rfl

/-- `k` one bits closed by a zero bit -/
theorem unaryLoop_ones (k : Nat) (fuel len : Nat) (r : Bits) (rest : List Bool) (hi : Bits.Inv r)
    (hs : Bits.stream r = List.replicate k true ++ false :: rest) (hf : k < fuel) :
    ∃ r', LhNew.unaryLoop fuel len r = (some (len + k), r') ∧ Bits.Inv r' ∧
      Bits.stream r' = rest := by
  induction k generalizing fuel len r with
  | zero =>
    obtain ⟨fuel, rfl⟩ : ∃ f, fuel = f + 1 := ⟨fuel - 1, by omega⟩
    obtain ⟨h1, h2, h3⟩ := Bits.readBit_some r hi false rest (by simpa using hs)
    refine ⟨r.readBit.2, ?_, h2, h3⟩
    simp only [LhNew.unaryLoop, h1]
    simp
  | succ k ih =>
    obtain ⟨fuel, rfl⟩ : ∃ f, fuel = f + 1 := ⟨fuel - 1, by omega⟩
    obtain ⟨h1, h2, h3⟩ := Bits.readBit_some r hi true
      (List.replicate k true ++ false :: rest) (by simpa [List.replicate_succ] using hs)
    obtain ⟨r', g1, g2, g3⟩ := ih fuel (len + 1) r.readBit.2 h2 h3 (by omega)
    refine ⟨r', ?_, g2, g3⟩
    simp only [LhNew.unaryLoop, h1]
    simp only [if_true]
    rw [g1]
    congr 2
    omega

/-- **Layer 1**: reading a code-length value written by `lenVal` -/
theorem readLengthValue_lenVal (l : Nat) (r : Bits) (rest : List Bool) (hi : Bits.Inv r)
    (hs : Bits.stream r = lenVal l ++ rest) :
    ∃ r', LhNew.readLengthValue r = (some l, r') ∧ Bits.Inv r' ∧ Bits.stream r' = rest := by
  unfold lenVal at hs
  by_cases hl : l < 7
  · rw [if_pos hl] at hs
    obtain ⟨h1, h2, h3⟩ := readBits_bitsN r 3 l rest hi (by decide) (by omega) hs
    refine ⟨(r.readBits 3).2, ?_, h2, h3⟩
    unfold LhNew.readLengthValue
    simp only [h1]
    split
    · next h => cases h
    · next h => cases h; omega
    · next len _ _ h => cases h; rfl
  · rw [if_neg hl, List.append_assoc, List.append_assoc] at hs
    obtain ⟨h1, h2, h3⟩ := readBits_bitsN r 3 7 _ hi (by decide) (by decide) hs
    have hfuel : l - 7 < LhNew.bitsLeft (r.readBits 3).2 + 1 := by
      rw [bitsLeft_eq, h3]; simp; omega
    obtain ⟨r', g1, g2, g3⟩ := unaryLoop_ones (l - 7) _ 7 (r.readBits 3).2 rest h2
      (by simpa using h3) hfuel
    refine ⟨r', ?_, g2, g3⟩
    unfold LhNew.readLengthValue
    simp only [h1]
    rw [g1]
    congr 2
    omega

/-! ## Layer 2: a decoding tree realises a table -/

/-- reading the code word of any symbol the table has returns that symbol and consumes the word -/
def TreeFor (lb : Nat) (tree : Array Nat) (t : Table) : Prop :=
  ∀ s, t.has s = true → ∀ (r : Bits) (rest : List Bool), Bits.Inv r →
    Bits.stream r = t.word s ++ rest →
    ∃ r', Tree.readFromTree lb tree r = .ok (some s, r') ∧ Bits.Inv r' ∧ Bits.stream r' = rest

theorem treeFor_single (lb : Nat) (t : Array Nat) (c : Nat) (hc : c < lb) (ht : 0 < t.size) :
    TreeFor lb (Tree.setSingle lb t (c : Int)) (.single c) := by
  intro s hs r rest hi hst
  have e : s = c := by simpa [Table.has] using hs
  subst e
  exact ⟨r, Tree.readFromTree_single lb t s hc ht r, hi, by simpa [Table.word] using hst⟩

theorem all_lt_of_all (ls : List Nat) (h : ls.all (fun l => decide (l < 256)) = true) :
    ∀ l ∈ ls, l < 256 := by
  intro l hl
  have := List.all_eq_true.mp h l hl
  simpa using this

theorem treeFor_lens (lb : Nat) (t : Array Nat) (treeLen : Nat) (ls : List Nat)
    (hlb : 2 * ls.length ≤ lb) (hc : Canon.complete ls = true) (hb : ∀ l ∈ ls, l < 256)
    (hlen : 2 * ls.length ≤ treeLen) (hsize : treeLen ≤ t.size) :
    TreeFor lb (Tree.buildTree lb t treeLen ls).1 (.lens ls) ∧
      (Tree.buildTree lb t treeLen ls).2 = false ∧
      (Tree.buildTree lb t treeLen ls).1.size = t.size := by
  obtain ⟨h1, h2⟩ := Tree.buildTree_complete_no_oob lb t treeLen ls hlb hc hb hlen hsize
  refine ⟨?_, h1, h2⟩
  intro s hs r rest hi hst
  have h1 : 1 ≤ ls.getD s 0 := by simpa [Table.has] using hs
  have hlt : s < ls.length := by
    false_or_by_contra
    rename_i hn
    rw [List.getD_eq_getElem?_getD, List.getElem?_eq_none (by omega)] at h1
    simp at h1
  exact Tree.readFromTree_canonical lb t treeLen ls hlb hc hb hlen hsize s hlt h1 r hi rest
    (by simpa [Table.word] using hst)

/-! ## Array bookkeeping of the table readers -/

theorem storeLen_ok (site : String) (cap : Nat) (lens : Array Nat) (i v : Nat) (h : i < cap) :
    LhNew.storeLen site cap lens i v = .ok (lens.setIfInBounds i (v % 256)) := by
  simp [LhNew.storeLen, h]

/-- `zeroRun` clears the cells `i+1 .. i+k` -/
theorem zeroRun_spec (cap k i : Nat) (lens : Array Nat) (hsz : lens.size = cap) (hik : i + k < cap) :
    ∃ lens', LhNew.zeroRun cap k i lens = .ok lens' ∧ lens'.size = cap ∧
      ∀ j, lens'[j]? = if i < j ∧ j ≤ i + k then some 0 else lens[j]? := by
  induction k generalizing i lens with
  | zero =>
    refine ⟨lens, rfl, hsz, ?_⟩
    intro j
    have : ¬ (i < j ∧ j ≤ i + 0) := by omega
    rw [if_neg this]
  | succ k ih =>
    obtain ⟨lens', h1, h2, h3⟩ := ih (i + 1) (lens.setIfInBounds (i + 1) (0 % 256))
      (by simpa using hsz) (by omega)
    refine ⟨lens', ?_, h2, ?_⟩
    · simp only [LhNew.zeroRun, storeLen_ok _ cap lens (i + 1) 0 (by omega), Res.ok_bind]
      exact h1
    · intro j
      rw [h3, Array.getElem?_setIfInBounds]
      by_cases hj : i + 1 = j
      · subst hj
        have a2 : i < i + 1 ∧ i + 1 ≤ i + (k + 1) := by omega
        have a3 : i + 1 < lens.size := by omega
        simp [a2, a3]
      · by_cases hr : i + 1 < j ∧ j ≤ i + 1 + k
        · have a2 : i < j ∧ j ≤ i + (k + 1) := by omega
          simp [hr, a2]
        · have a2 : ¬ (i < j ∧ j ≤ i + (k + 1)) := by omega
          simp [hr, a2, hj]

/-- `skipRun` clears the cells `i .. min (i+k) n - 1` and stops at `n` -/
theorem skipRun_spec (cap n k i : Nat) (lens : Array Nat) (hn : n ≤ cap) (hsz : lens.size = cap)
    (hi : i ≤ n) :
    ∃ lens', LhNew.skipRun cap n k i lens = .ok (min (i + k) n, lens') ∧ lens'.size = cap ∧
      ∀ j, lens'[j]? = if i ≤ j ∧ j < min (i + k) n then some 0 else lens[j]? := by
  induction k generalizing i lens with
  | zero =>
    refine ⟨lens, ?_, hsz, ?_⟩
    · simp only [LhNew.skipRun]
      congr 2
      omega
    · intro j
      have : ¬ (i ≤ j ∧ j < min (i + 0) n) := by omega
      rw [if_neg this]
  | succ k ih =>
    by_cases hin : i < n
    · obtain ⟨lens', h1, h2, h3⟩ := ih (i + 1) (lens.setIfInBounds i (0 % 256))
        (by simpa using hsz) (by omega)
      refine ⟨lens', ?_, h2, ?_⟩
      · simp only [LhNew.skipRun, hin, if_true, storeLen_ok _ cap lens i 0 (by omega), Res.ok_bind]
        rw [h1]
        congr 2
        omega
      · intro j
        rw [h3, Array.getElem?_setIfInBounds]
        by_cases hj : i = j
        · subst hj
          have a1 : ¬ (i + 1 ≤ i ∧ i < min (i + 1 + k) n) := by omega
          have a2 : i ≤ i ∧ i < min (i + (k + 1)) n := by omega
          have a3 : i < lens.size := by omega
          simp [a1, a2, a3]
        · by_cases hr : i + 1 ≤ j ∧ j < min (i + 1 + k) n
          · have a2 : i ≤ j ∧ j < min (i + (k + 1)) n := by omega
            simp [hr, a2]
          · have a2 : ¬ (i ≤ j ∧ j < min (i + (k + 1)) n) := by omega
            simp [hr, a2, hj]
    · refine ⟨lens, ?_, hsz, ?_⟩
      · simp only [LhNew.skipRun, hin, if_false]
        congr 2
        omega
      · intro j
        have : ¬ (i ≤ j ∧ j < min (i + (k + 1)) n) := by omega
        rw [if_neg this]

/-- the first `n` cells of the array read back as the list -/
theorem take_eq_of_cells (lens : Array Nat) (L : List Nat) (n : Nat) (hn : n ≤ L.length)
    (h : ∀ j, j < n → lens[j]? = some (L.getD j 0)) : lens.toList.take n = L.take n := by
  apply List.ext_getElem?
  intro j
  rw [List.getElem?_take, List.getElem?_take]
  by_cases hj : j < n
  · simp only [hj, if_true]
    rw [Array.getElem?_toList, h j hj, List.getD_eq_getElem?_getD,
      List.getElem?_eq_getElem (by omega)]
    simp
  · simp [hj]

end LhasaV.LhNewRT
