import LhasaV.Lemmas.ArchiveOf6
/-!
# C06, archives as bytes (part 7): `lha_reader_next_file` and `lha_reader_extract` along `archiveWith pk es`

`RState pk A es rd`: where the reader stands, by the kind of entry it presented last — before the
first call (`Fresh`), on a stream entry whose end is where `es` begins (`At`, up to what a decoder
consumed), or on a re-presented directory / deferred link with the header of the first entry of
`es` already read (`Got`).  `next_step`: what `lha_reader_next_file` does from such a state;
`extract_at`: `lha_reader_extract` keeps the position.
-/
set_option linter.unusedSimpArgs false
namespace LhasaV.ArchiveOf
open LhasaV LhasaV.Header LhasaV.Extract LhasaV.GlobFs LhasaV.Contain LhasaV.ExtractTree
open LhasaV.ExtractTree.Sample LhasaV.Spec.HeaderEnc LhasaV.Reader LhasaV.ReaderIndep

/-- the reader's position in the archive, by what it presented last -/
def RState (pk : Packer) (A : Array UInt8) (es : List Entry) (rd : Reader.St) : Prop :=
  match rd.currType with
  | .start => rd.dec = none ∧ Fresh pk A es rd.basic
  | .normal => At pk A es rd.basic
  | .fakeDir => rd.dec = none ∧ Got pk A es rd.basic
  | .deferred => rd.dec = none ∧ Got pk A es rd.basic
  | .eof => True

/-- what the last two phases of `next` leave -/
def TailShape (u r : Reader.St) : Prop :=
  r.dec = u.dec ∧ r.basic = u.basic ∧
  ((r.currType = .fakeDir ∧ r.curr ≠ none) ∨
   (r.currType = .normal ∧ r.curr = u.basic.curr ∧ r.curr ≠ none) ∨
   (r.currType = .deferred ∧ r.curr ≠ none) ∨
   (r.currType = .eof ∧ r.curr = none))

theorem tail_shape (u : Reader.St) : TailShape u (nextDeferred (nextPop u)) := by
  unfold TailShape
  by_cases he : endOfTopDir u = true
  · obtain ⟨top, rest, hds⟩ := endOfTopDir_cons he
    simp [nextPop, he, hds, nextDeferred]
  · have he' : endOfTopDir u = false := by simpa using he
    cases hb : u.basic.curr with
    | some c => simp [nextPop, he', nextDeferred, hb]
    | none =>
      cases hdf : u.deferred with
      | nil => simp [nextPop, he', nextDeferred, hb, hdf]
      | cons d r => simp [nextPop, he', nextDeferred, hb, hdf]

theorem nextUnref_dec (s : Reader.St) : (nextUnref s).dec = s.dec := by
  unfold nextUnref; split
  · split <;> rfl
  · rfl

/-- **`lha_reader_next_file` along the archive** -/
theorem next_step (pk : Packer) (A : Array UInt8) (es : List Entry) (rd : Reader.St) (hok : AllOk pk es)
    (hg : Good rd) (hs : RState pk A es rd) (hne : rd.currType ≠ .eof) :
    ∃ oc rd', Reader.next rd = .ok (oc, rd') ∧ oc = rd'.curr ∧ rd'.dec = none ∧ Got pk A es rd'.basic ∧
      ((rd'.currType = .fakeDir ∧ rd'.curr ≠ none) ∨
       (rd'.currType = .normal ∧ rd'.curr = rd'.basic.curr ∧ rd'.curr ≠ none) ∨
       (rd'.currType = .deferred ∧ rd'.curr ≠ none) ∨
       (rd'.currType = .eof ∧ rd'.curr = none)) := by
  have hf := closeDecoder_frame rd
  have hd0 := closeDecoder_dec rd
  have h1 : ∃ s1, nextAdv (closeDecoder rd) = .ok s1 ∧ s1.dec = none ∧ Got pk A es s1.basic := by
    cases ht : rd.currType with
    | start =>
      simp only [RState, ht] at hs
      obtain ⟨hdn, hfr⟩ := hs
      rw [closeDecoder_none hdn]
      obtain ⟨b', led', e, hgot⟩ := basicNext_fresh pk rd.mktime A es rd.basic rd.led hok hfr
      refine ⟨{ rd with basic := b', led := led' }, ?_, hdn, hgot⟩
      unfold nextAdv; simp [ht, e]
    | normal =>
      simp only [RState, ht] at hs
      have hce := eff_consEq hg.pre.decOK hg.pre.tidy
      have hat := hs.consEq hce.1
      have hwf := Stream.wf_closeDecoder rd hg.pre.wf
      obtain ⟨b', led', e, hgot⟩ := basicNext_at pk (closeDecoder rd).mktime A es _ (closeDecoder rd).led hok hat hwf
      refine ⟨{ closeDecoder rd with basic := b', led := led' }, ?_, hd0, hgot⟩
      unfold nextAdv; simp [hf.currType, ht, e]
    | fakeDir =>
      simp only [RState, ht] at hs
      rw [closeDecoder_none hs.1]
      exact ⟨rd, nextAdv_fake (by rw [ht]; simp), hs.1, hs.2⟩
    | deferred =>
      simp only [RState, ht] at hs
      rw [closeDecoder_none hs.1]
      exact ⟨rd, nextAdv_fake (by rw [ht]; simp), hs.1, hs.2⟩
    | eof => exact absurd ht hne
  obtain ⟨s1, e1, d1, g1⟩ := h1
  have he : ((closeDecoder rd).currType == CurrType.eof) = false := by
    rw [hf.currType]; simpa using hne
  obtain ⟨t1, t2, t3⟩ := tail_shape (nextUnref s1)
  refine ⟨(nextDeferred (nextPop (nextUnref s1))).curr, nextDeferred (nextPop (nextUnref s1)), ?_, rfl, ?_, ?_, ?_⟩
  · rw [next_eq, he]
    simp only [Bool.false_eq_true, if_false, e1]
    rfl
  · rw [t1, nextUnref_dec]; exact d1
  · rw [t2, Reader.nextUnref_basic]; exact g1
  · rw [t2] 
    exact t3

/-- `lha_reader_extract` does not move the basic reader (up to what the decoder consumed) -/
theorem extract_at (pk : Packer) (A : Array UInt8) (tl : List Entry) (rd : Reader.St) (b : Bool) (hp : Pre rd)
    (h : At pk A tl rd.basic) : At pk A tl (Reader.extract rd b).2.basic := by
  by_cases hf : IsFile rd
  · exact h.consEq (extract_file_step honestAll hp hf b).basic
  · rw [extract_nonfile hf, (extractMeta_basic rd b).1]; exact h

theorem good_extract {rd : Reader.St} (hg : Good rd) (b : Bool) : Good (Reader.extract rd b).2 :=
  step_good honestAll hg (.extract b)

/-- whatever `lha_reader_extract` (the file-system half included) leaves as reader state is the
state itself or the state after the reader half with some outcome of the file-system call -/
theorem readerExtract_ind (P : Reader.St → Prop) (rd : Reader.St) (h0 : P rd)
    (h1 : ∀ b, P (Reader.extract rd b).2) (fs : Fs.St) (fn : Bytes) : P (readerExtract rd fs fn).2.1 := by
  unfold readerExtract
  split <;> (try simp only) <;> repeat' split
  all_goals first
    | exact h0
    | exact h1 _

theorem eaf_ind (P : Reader.St → Prop) (s : Extract.St) (h : Hdr) (h0 : P s.rd)
    (h1 : ∀ b, P (Reader.extract s.rd b).2) : P (extractArchivedFile s h).rd := by
  rcases eaf_cases s h with ⟨_, h2⟩ | ⟨_, h2⟩ | ⟨_, h2⟩
  · rw [h2]; exact h0
  · rw [h2]; exact h0
  · rw [h2]; exact readerExtract_ind P s.rd h0 h1 _ _

end LhasaV.ArchiveOf
