import LhasaV.Lemmas.HonestBase
import LhasaV.Model.LhNew
/-!
`Honest` for the lh4, lh5, lh6, lh7, lhx and lk7 decoder (`LhasaV.LhNew`), for every parameter
set: the only thing in the model that ever changes `bits.src` is `Src.read`, reached through
`Bits.readBits`/`readBit` and `Tree.readFromTree`.  One `lhnew_…_le` lemma per function of the
model that threads a `Bits` or an `St`.
-/
namespace LhasaV.ReaderIndep
open LhasaV

/-! ## a post-condition on normal return, and its rules -/

/-- `x` returned normally only with a value satisfying `P` (nothing is said about `fail`/`fault`) -/
structure LhNewOkP {α : Type} (x : Res α) (P : α → Prop) : Prop where
  out : ∀ a, x = .ok a → P a

namespace LhNewOkP

theorem ok {α : Type} {P : α → Prop} {a : α} (h : P a) : LhNewOkP (.ok a) P :=
  ⟨by intro b e; cases e; exact h⟩

theorem fault {α : Type} {P : α → Prop} {w : String} : LhNewOkP (.fault w : Res α) P :=
  ⟨by intro b e; cases e⟩

theorem fail {α : Type} {P : α → Prop} : LhNewOkP (.fail : Res α) P :=
  ⟨by intro b e; cases e⟩

theorem bind {α β : Type} {x : Res α} {f : α → Res β} {Q : α → Prop} {P : β → Prop}
    (hx : LhNewOkP x Q) (hf : ∀ a, Q a → LhNewOkP (f a) P) : LhNewOkP (x >>= f) P := by
  refine ⟨fun b e => ?_⟩
  obtain ⟨a, e1, e2⟩ := Res.bind_eq_ok.mp e
  exact (hf a (hx.out a e1)).out b e2

/-- bind after a step about which nothing needs to be known -/
theorem bind' {α β : Type} {x : Res α} {f : α → Res β} {P : β → Prop}
    (hf : ∀ a, LhNewOkP (f a) P) : LhNewOkP (x >>= f) P :=
  bind (Q := fun _ => True) ⟨fun _ _ => trivial⟩ (fun a _ => hf a)

theorem mono {α : Type} {x : Res α} {P Q : α → Prop} (h : LhNewOkP x P) (hpq : ∀ a, P a → Q a) :
    LhNewOkP x Q := ⟨fun a e => hpq a (h.out a e)⟩

theorem ite {α : Type} {P : α → Prop} (c : Prop) [Decidable c] {a b : Res α}
    (ha : c → LhNewOkP a P) (hb : ¬c → LhNewOkP b P) : LhNewOkP (if c then a else b) P := by
  by_cases h : c
  · rw [if_pos h]; exact ha h
  · rw [if_neg h]; exact hb h

end LhNewOkP

theorem stepLe_iff_okP {α : Type} {r : Bits} {x : Res (α × Bits)} :
    StepLe r x ↔ LhNewOkP x (fun o => SrcLe r.src o.2.src) :=
  ⟨fun h => ⟨fun o e => h o.1 o.2 e⟩, fun h a r' e => h.out (a, r') e⟩

/-- a step `x : Res (α × LhNew.St)` started from `s`: if it returns, the source only moved by reads -/
def LhNewStLe {α : Type} (s : LhNew.St) (x : Res (α × LhNew.St)) : Prop :=
  ∀ a s', x = .ok (a, s') → SrcLe s.bits.src s'.bits.src

theorem lhNewStLe_iff_okP {α : Type} {s : LhNew.St} {x : Res (α × LhNew.St)} :
    LhNewStLe s x ↔ LhNewOkP x (fun o => SrcLe s.bits.src o.2.bits.src) :=
  ⟨fun h => ⟨fun o e => h o.1 o.2 e⟩, fun h a s' e => h.out (a, s') e⟩

/-! ## reading code lengths -/

theorem lhnew_unaryLoop_le (fuel len : Nat) (r : Bits) :
    SrcLe r.src (LhNew.unaryLoop fuel len r).2.src := by
  induction fuel generalizing len r with
  | zero => exact SrcLe.refl _
  | succ fuel ih =>
    unfold LhNew.unaryLoop
    have h := readBit_le r
    simp only []
    generalize r.readBit = q at h
    obtain ⟨qv, qr⟩ := q
    cases qv with
    | none => exact h
    | some b =>
      cases b with
      | zero => exact h
      | succ b => exact h.trans (ih _ _)

theorem lhnew_readLengthValue_le (r : Bits) : SrcLe r.src (LhNew.readLengthValue r).2.src := by
  unfold LhNew.readLengthValue
  have h := readBits_le r 3
  simp only []
  split
  · exact h
  · exact h.trans (lhnew_unaryLoop_le _ _ _)
  · exact h

theorem lhnew_tempLoop_okP (cap n : Nat) (m : Nat) :
    ∀ (i : Nat) (lens : Array Nat) (r : Bits), n - i ≤ m →
      LhNewOkP (LhNew.tempLoop cap n i lens r) (fun o => SrcLe r.src o.2.src) := by
  induction m with
  | zero =>
    intro i lens r hm
    rw [LhNew.tempLoop]
    have : ¬ i < n := by omega
    rw [dif_neg this]
    exact .ok (SrcLe.refl _)
  | succ m ih =>
    intro i lens r hm
    rw [LhNew.tempLoop]
    by_cases hin : i < n
    · rw [dif_pos hin]
      have h1 := lhnew_readLengthValue_le r
      simp only []
      generalize LhNew.readLengthValue r = q at h1
      obtain ⟨qv, qr⟩ := q
      cases qv with
      | none => exact .ok h1
      | some len =>
        apply LhNewOkP.bind'
        intro lens1
        apply LhNewOkP.ite
        · intro _
          have h2 := readBits_le qr 2
          simp only []
          generalize qr.readBits 2 = q2 at h2
          obtain ⟨q2v, q2r⟩ := q2
          cases q2v with
          | none => exact .ok (h1.trans h2)
          | some k =>
            apply LhNewOkP.bind'
            intro lens2
            exact (ih _ _ _ (by omega)).mono (fun o ho => h1.trans (h2.trans ho))
        · intro _
          exact (ih _ _ _ (by omega)).mono (fun o ho => h1.trans ho)
    · rw [dif_neg hin]
      exact .ok (SrcLe.refl _)

theorem lhnew_tempLoop_le (cap n i : Nat) (lens : Array Nat) (r : Bits) :
    StepLe r (LhNew.tempLoop cap n i lens r) :=
  stepLe_iff_okP.mpr (lhnew_tempLoop_okP cap n (n - i) i lens r (Nat.le_refl _))

theorem lhnew_readTempTable_le (p : LhNew.Params) (s : LhNew.St) :
    LhNewStLe s (LhNew.readTempTable p s) := by
  rw [lhNewStLe_iff_okP]
  unfold LhNew.readTempTable
  have h1 := readBits_le s.bits p.tempCodeBits
  simp only []
  generalize s.bits.readBits p.tempCodeBits = a at h1
  obtain ⟨av, ar⟩ := a
  split
  · exact .ok h1
  · have h2 := readBits_le ar 5
    generalize Bits.readBits (av, ar).2 5 = c at h2
    split
    · exact .ok (h1.trans h2)
    · exact .ok (h1.trans h2)
  · apply LhNewOkP.bind (stepLe_iff_okP.mp (lhnew_tempLoop_le _ _ _ _ _))
    intro t ht
    split
    · exact .ok (h1.trans ht)
    · apply LhNewOkP.ite
      · intro _; exact .fault
      · intro _; exact .ok (h1.trans ht)

/-! ## the code table -/

theorem lhnew_readSkipCount_le (r : Bits) (k : Nat) : SrcLe r.src (LhNew.readSkipCount r k).2.src := by
  unfold LhNew.readSkipCount
  by_cases h0 : k = 0
  · rw [if_pos h0]; exact SrcLe.refl _
  · rw [if_neg h0]
    by_cases h1 : k = 1
    · rw [if_pos h1]; exact readBits_le r 4
    · rw [if_neg h1]; exact readBits_le r 9

theorem lhnew_codeLoop_le (p : LhNew.Params) (n : Nat) (tempTree : Array Nat) (fuel : Nat) :
    ∀ (i : Nat) (lens : Array Nat) (r : Bits),
      StepLe r (LhNew.codeLoop p n fuel i lens tempTree r) := by
  induction fuel with
  | zero => intro i lens r; exact stepLe_iff_okP.mpr (.ok (SrcLe.refl _))
  | succ fuel ih =>
    intro i lens r
    rw [stepLe_iff_okP]
    unfold LhNew.codeLoop
    apply LhNewOkP.ite
    · intro _
      apply LhNewOkP.bind (stepLe_iff_okP.mp (readFromTree_le p.leafBit tempTree r))
      intro t ht
      split
      · exact .ok ht
      · rename_i code _
        apply LhNewOkP.ite
        · intro _
          have h2 := lhnew_readSkipCount_le t.2 code
          simp only []
          generalize LhNew.readSkipCount t.2 code = sk at h2
          split
          · exact .ok (ht.trans h2)
          · apply LhNewOkP.bind'
            intro z
            exact (stepLe_iff_okP.mp (ih _ _ _)).mono (fun o ho => ht.trans (h2.trans ho))
        · intro _
          apply LhNewOkP.bind'
          intro lens'
          exact (stepLe_iff_okP.mp (ih _ _ _)).mono (fun o ho => ht.trans ho)
    · intro _; exact .ok (SrcLe.refl _)

theorem lhnew_readCodeTable_le (p : LhNew.Params) (s : LhNew.St) :
    LhNewStLe s (LhNew.readCodeTable p s) := by
  rw [lhNewStLe_iff_okP]
  unfold LhNew.readCodeTable
  have h1 := readBits_le s.bits 9
  simp only []
  generalize s.bits.readBits 9 = a at h1
  obtain ⟨av, ar⟩ := a
  split
  · exact .ok h1
  · have h2 := readBits_le ar 9
    generalize Bits.readBits (av, ar).2 9 = c at h2
    split
    · exact .ok (h1.trans h2)
    · exact .ok (h1.trans h2)
  · apply LhNewOkP.bind (stepLe_iff_okP.mp (lhnew_codeLoop_le _ _ _ _ _ _ _))
    intro t ht
    split
    · exact .ok (h1.trans ht)
    · apply LhNewOkP.ite
      · intro _; exact .fault
      · intro _; exact .ok (h1.trans ht)

/-! ## the offset table -/

theorem lhnew_offLoop_le (cap : Nat) (k : Nat) :
    ∀ (i : Nat) (lens : Array Nat) (r : Bits), StepLe r (LhNew.offLoop cap k i lens r) := by
  induction k with
  | zero => intro i lens r; exact stepLe_iff_okP.mpr (.ok (SrcLe.refl _))
  | succ k ih =>
    intro i lens r
    rw [stepLe_iff_okP]
    unfold LhNew.offLoop
    have h1 := lhnew_readLengthValue_le r
    simp only []
    generalize LhNew.readLengthValue r = q at h1
    split
    · exact .ok h1
    · apply LhNewOkP.bind'
      intro lens'
      exact (stepLe_iff_okP.mp (ih _ _ _)).mono (fun o ho => h1.trans ho)

theorem lhnew_readOffsetTable_le (p : LhNew.Params) (s : LhNew.St) :
    LhNewStLe s (LhNew.readOffsetTable p s) := by
  rw [lhNewStLe_iff_okP]
  unfold LhNew.readOffsetTable
  have h1 := readBits_le s.bits p.offsetBits
  simp only []
  generalize s.bits.readBits p.offsetBits = a at h1
  obtain ⟨av, ar⟩ := a
  split
  · exact .ok h1
  · have h2 := readBits_le ar p.offsetBits
    generalize Bits.readBits (av, ar).2 p.offsetBits = c at h2
    split
    · exact .ok (h1.trans h2)
    · exact .ok (h1.trans h2)
  · apply LhNewOkP.bind (stepLe_iff_okP.mp (lhnew_offLoop_le _ _ _ _ _))
    intro t ht
    split
    · exact .ok (h1.trans ht)
    · apply LhNewOkP.ite
      · intro _; exact .fault
      · intro _; exact .ok (h1.trans ht)

/-! ## blocks -/

theorem lhnew_startNewBlock_le (p : LhNew.Params) (s : LhNew.St) :
    LhNewStLe s (LhNew.startNewBlock p s) := by
  rw [lhNewStLe_iff_okP]
  unfold LhNew.startNewBlock
  have h1 := readBits_le s.bits 16
  simp only []
  generalize s.bits.readBits 16 = a at h1
  split
  · exact .ok h1
  · rename_i len _
    apply LhNewOkP.bind (lhNewStLe_iff_okP.mp (lhnew_readTempTable_le p _))
    intro t ht
    have ht' : SrcLe s.bits.src t.2.bits.src := h1.trans ht
    apply LhNewOkP.ite
    · intro _; exact .ok ht'
    · intro _
      apply LhNewOkP.bind (lhNewStLe_iff_okP.mp (lhnew_readCodeTable_le p _))
      intro c hc
      apply LhNewOkP.ite
      · intro _; exact .ok (ht'.trans hc)
      · intro _
        exact (lhNewStLe_iff_okP.mp (lhnew_readOffsetTable_le p _)).mono
          (fun o ho => ht'.trans (hc.trans ho))

theorem lhnew_blockLoop_le (p : LhNew.Params) (fuel : Nat) :
    ∀ (s : LhNew.St), LhNewStLe s (LhNew.blockLoop p fuel s) := by
  induction fuel with
  | zero => intro s; exact lhNewStLe_iff_okP.mpr (.ok (SrcLe.refl _))
  | succ fuel ih =>
    intro s
    rw [lhNewStLe_iff_okP]
    unfold LhNew.blockLoop
    apply LhNewOkP.ite
    · intro _
      apply LhNewOkP.bind (lhNewStLe_iff_okP.mp (lhnew_startNewBlock_le p s))
      intro b hb
      apply LhNewOkP.ite
      · intro _; exact .ok hb
      · intro _
        exact (lhNewStLe_iff_okP.mp (ih _)).mono (fun o ho => hb.trans ho)
    · intro _; exact .ok (SrcLe.refl _)

/-! ## one `read` -/

theorem lhnew_readOffsetCode_le (p : LhNew.Params) (s : LhNew.St) :
    StepLe s.bits (LhNew.readOffsetCode p s) := by
  rw [stepLe_iff_okP]
  unfold LhNew.readOffsetCode
  apply LhNewOkP.bind (stepLe_iff_okP.mp (readFromTree_le p.leafBit s.offsetTree s.bits))
  intro t ht
  split
  · exact .ok ht
  · rename_i bits _
    apply LhNewOkP.ite
    · intro _; exact .ok ht
    · intro _
      apply LhNewOkP.ite
      · intro _; exact .ok ht
      · intro _
        apply LhNewOkP.ite
        · intro _
          apply LhNewOkP.ite
          · intro _; exact .ok ht
          · intro _
            have h2 := readBits_le t.2 ((bits - 2) / 2)
            simp only []
            generalize t.2.readBits ((bits - 2) / 2) = q at h2
            split
            · exact .ok (ht.trans h2)
            · exact .ok (ht.trans h2)
        · intro _
          have h2 := readBits_le t.2 (bits - 1)
          simp only []
          generalize t.2.readBits (bits - 1) = q at h2
          split
          · exact .ok (ht.trans h2)
          · exact .ok (ht.trans h2)

theorem lhnew_lharkCopyCount_le (p : LhNew.Params) (r : Bits) (code : Nat) :
    SrcLe r.src (LhNew.lharkCopyCount p r code).2.src := by
  unfold LhNew.lharkCopyCount
  by_cases h1 : code < 264
  · rw [if_pos h1]; exact SrcLe.refl _
  · rw [if_neg h1]
    by_cases h2 : code < 288
    · rw [if_pos h2]; exact readBits_le r ((code - 260) / 4)
    · rw [if_neg h2]; exact SrcLe.refl _

theorem lhnew_read_le (p : LhNew.Params) (s : LhNew.St) : LhNewStLe s (LhNew.read p s) := by
  rw [lhNewStLe_iff_okP]
  unfold LhNew.read
  apply LhNewOkP.bind (lhNewStLe_iff_okP.mp (lhnew_blockLoop_le p _ s))
  intro b hb
  apply LhNewOkP.ite
  · intro _; exact .ok hb
  · intro _
    apply LhNewOkP.bind (stepLe_iff_okP.mp (readFromTree_le p.leafBit _ _))
    intro t ht
    have ht' : SrcLe s.bits.src t.2.src := hb.trans ht
    split
    · exact .ok ht'
    · rename_i code _
      apply LhNewOkP.ite
      · intro _
        apply LhNewOkP.ite
        · intro _; exact .ok ht'
        · intro _; exact .fault
      · intro _
        have hcc : SrcLe t.2.src (if p.lhark = true then LhNew.lharkCopyCount p t.2 code
              else (some (code - 256 + p.copyThreshold), t.2)).2.src := by
          by_cases hlk : p.lhark = true
          · rw [if_pos hlk]; exact lhnew_lharkCopyCount_le p t.2 code
          · rw [if_neg hlk]; exact SrcLe.refl _
        simp only []
        generalize (if p.lhark = true then LhNew.lharkCopyCount p t.2 code
              else (some (code - 256 + p.copyThreshold), t.2)) = cc at hcc
        have hcc' : SrcLe s.bits.src cc.2.src := ht'.trans hcc
        split
        · exact .ok hcc'
        · apply LhNewOkP.bind (stepLe_iff_okP.mp (lhnew_readOffsetCode_le p _))
          intro o ho
          have ho' : SrcLe s.bits.src o.2.src := hcc'.trans ho
          split
          · exact .ok ho'
          · apply LhNewOkP.ite
            · intro _; exact .ok ho'
            · intro _
              apply LhNewOkP.bind'
              intro r
              exact .ok ho'

/-! ## main theorem -/

theorem honest_lhnew (p : LhNew.Params) : Honest (LhNew.dec p) := by
  refine ⟨fun src h => h, ?_⟩
  intro st o st' e
  exact lhnew_read_le p st o st' e

end LhasaV.ReaderIndep
