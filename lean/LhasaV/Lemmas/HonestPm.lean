import LhasaV.Lemmas.HonestBase
import LhasaV.Model.Pm
/-! `Honest` for the PMarc decoders `-pm2-` and `-pm1-`: the only thing that ever changes
`bits.src` is `Src.read` (through the bit reader, the tree walk and `decode_variable_length`). -/
namespace LhasaV.ReaderIndep
open LhasaV

/-! ## pma_common.c -/

theorem pma_decodeVarLen_le (site : String) (table : List (Nat × Nat)) (r : Bits) (header : Nat) :
    StepLe r (Pma.decodeVarLen site table r header) := by
  intro a r' e
  unfold Pma.decodeVarLen at e
  split at e
  · cases e
  · cases e
    exact readBits_le r _

/-! ## -pm2- -/

theorem pm2_codeLenLoop_le (minLen lengthBits : Nat) : ∀ (k i : Nat) (lens : Array Nat) (r : Bits),
    StepLe r (Pm2.codeLenLoop minLen lengthBits k i lens r) := by
  intro k
  induction k with
  | zero =>
    intro i lens r a r' e
    simp only [Pm2.codeLenLoop, Res.ok.injEq, Prod.mk.injEq] at e
    rw [← e.2]; exact SrcLe.refl _
  | succ k ih =>
    intro i lens r a r' e
    unfold Pm2.codeLenLoop at e
    dsimp only at e
    split at e
    · cases e
      exact readBits_le r _
    · split at e
      · exact (readBits_le r _).trans (ih _ _ _ a r' e)
      · cases e

theorem pm2_readCodeTree_le (s s' : Pm2.St) (e : Pm2.readCodeTree s = .ok s') :
    SrcLe s.bits.src s'.bits.src := by
  unfold Pm2.readCodeTree at e
  dsimp only at e
  have h1 := readBits_le s.bits 5
  have h2 := readBits_le (s.bits.readBits 5).2 3
  have h12 := h1.trans h2
  split at e
  · split at e
    · cases e
      exact h12
    · have h3 := readBits_le ((s.bits.readBits 5).2.readBits 3).2 3
      have h123 := h12.trans h3
      split at e
      · cases e
        exact h123
      · obtain ⟨t, e1, e2⟩ := Res.bind_eq_ok.mp e
        have h4 := pm2_codeLenLoop_le _ _ _ _ _ _ t.1 t.2 e1
        have h := h123.trans h4
        split at e2
        · cases e2
          exact h
        · split at e2
          · cases e2
          · cases e2
            exact h
  · cases e
    exact h12

theorem pm2_offLenLoop_le : ∀ (k off : Nat) (lens : Array Nat) (single n : Nat) (r : Bits),
    StepLe r (Pm2.offLenLoop k off lens single n r) := by
  intro k
  induction k with
  | zero =>
    intro off lens single n r a r' e
    simp only [Pm2.offLenLoop, Res.ok.injEq, Prod.mk.injEq] at e
    rw [← e.2]; exact SrcLe.refl _
  | succ k ih =>
    intro off lens single n r a r' e
    unfold Pm2.offLenLoop at e
    dsimp only at e
    split at e
    · cases e
      exact readBits_le r _
    · split at e
      · split at e
        · exact (readBits_le r _).trans (ih _ _ _ _ _ a r' e)
        · exact (readBits_le r _).trans (ih _ _ _ _ _ a r' e)
      · cases e

theorem pm2_readOffsetTree_le (s : Pm2.St) (numOffsets : Nat) (s' : Pm2.St)
    (e : Pm2.readOffsetTree s numOffsets = .ok s') : SrcLe s.bits.src s'.bits.src := by
  unfold Pm2.readOffsetTree at e
  split at e
  · cases e
    exact SrcLe.refl _
  · obtain ⟨t, e1, e2⟩ := Res.bind_eq_ok.mp e
    have h := pm2_offLenLoop_le _ _ _ _ _ _ t.1 t.2 e1
    split at e2
    · cases e2
      exact h
    · split at e2
      · cases e2
        exact h
      · dsimp only at e2
        split at e2
        · cases e2
        · cases e2
          exact h

theorem pm2_rebuildTree_le (s s' : Pm2.St) (e : Pm2.rebuildTree s = .ok s') :
    SrcLe s.bits.src s'.bits.src := by
  unfold Pm2.rebuildTree at e
  split at e
  · obtain ⟨s1, e1, e⟩ := Res.bind_eq_ok.mp e
    obtain ⟨s2, e2, e⟩ := Res.bind_eq_ok.mp e
    cases e
    exact (pm2_readCodeTree_le _ _ e1).trans (pm2_readOffsetTree_le _ _ s2 e2)
  · obtain ⟨s2, e2, e⟩ := Res.bind_eq_ok.mp e
    cases e
    exact pm2_readOffsetTree_le _ _ s2 e2
  · obtain ⟨s2, e2, e⟩ := Res.bind_eq_ok.mp e
    cases e
    exact pm2_readOffsetTree_le _ _ s2 e2
  · dsimp only at e
    obtain ⟨s1, e1, e⟩ := Res.bind_eq_ok.mp e
    obtain ⟨s2, e2, e⟩ := Res.bind_eq_ok.mp e
    cases e
    have h0 := readBit_le s.bits
    have h1 : SrcLe s.bits.src s1.bits.src := by
      split at e1
      · exact h0.trans (pm2_readCodeTree_le _ _ e1)
      · cases e1
        exact h0
    exact h1.trans (pm2_readOffsetTree_le _ _ s2 e2)
  · dsimp only at e
    obtain ⟨s1, e1, e⟩ := Res.bind_eq_ok.mp e
    cases e
    have h0 := readBit_le s.bits
    split at e1
    · obtain ⟨s2, e2, e3⟩ := Res.bind_eq_ok.mp e1
      exact h0.trans ((pm2_readCodeTree_le _ _ e2).trans (pm2_readOffsetTree_le _ _ s1 e3))
    · cases e1
      exact h0

theorem pm2_outputByte_le (s : Pm2.St) (b : UInt8) (s' : Pm2.St) (e : Pm2.outputByte s b = .ok s') :
    SrcLe s.bits.src s'.bits.src := by
  unfold Pm2.outputByte at e
  split at e
  · dsimp only at e
    obtain ⟨h, _, e⟩ := Res.bind_eq_ok.mp e
    split at e
    · have h := pm2_rebuildTree_le _ _ e
      exact h
    · cases e
      exact SrcLe.refl _
  · cases e

theorem pm2_copyLoop_le : ∀ (k src : Nat) (s : Pm2.St) (acc : List UInt8) (s' : Pm2.St) (o : List UInt8),
    Pm2.copyLoop k src s acc = .ok (s', o) → SrcLe s.bits.src s'.bits.src := by
  intro k
  induction k with
  | zero =>
    intro src s acc s' o e
    simp only [Pm2.copyLoop, Res.ok.injEq, Prod.mk.injEq] at e
    rw [← e.1]; exact SrcLe.refl _
  | succ k ih =>
    intro src s acc s' o e
    unfold Pm2.copyLoop at e
    split at e
    · cases e
    · obtain ⟨s1, e1, e2⟩ := Res.bind_eq_ok.mp e
      exact (pm2_outputByte_le _ _ _ e1).trans (ih _ _ _ _ _ e2)

theorem pm2_historyGetOffset_le (s : Pm2.St) (code : Nat) :
    StepLe s.bits (Pm2.historyGetOffset s code) := by
  intro a r' e
  unfold Pm2.historyGetOffset at e
  split at e
  · cases e
    exact readBits_le _ 6
  · split at e
    · obtain ⟨t, e1, e2⟩ := Res.bind_eq_ok.mp e
      have h := readFromTree_le _ _ _ t.1 t.2 e1
      split at e2
      · cases e2
        exact h
      · split at e2
        · cases e2
          exact h.trans (readBits_le _ 6)
        · cases e2
          exact h.trans (readBits_le _ _)
    · cases e
      exact SrcLe.refl _

theorem pm2_read_le (s : Pm2.St) (o : List UInt8) (s' : Pm2.St) (e : Pm2.read s = .ok (o, s')) :
    SrcLe s.bits.src s'.bits.src := by
  unfold Pm2.read at e
  obtain ⟨s1, e1, e⟩ := Res.bind_eq_ok.mp e
  have h1 : SrcLe s.bits.src s1.bits.src := by
    split at e1
    · exact (readBit_le s.bits).trans (pm2_rebuildTree_le _ _ e1)
    · cases e1
      exact SrcLe.refl _
  obtain ⟨t, e2, e⟩ := Res.bind_eq_ok.mp e
  have h2 := h1.trans (readFromTree_le _ _ _ t.1 t.2 e2)
  split at e
  · cases e
    exact h2
  · dsimp only at e
    split at e
    · obtain ⟨d, e3, e⟩ := Res.bind_eq_ok.mp e
      have h3 := h2.trans (pma_decodeVarLen_le _ _ _ _ d.1 d.2 e3)
      split at e
      · cases e
        exact h3
      · obtain ⟨b, _, e⟩ := Res.bind_eq_ok.mp e
        obtain ⟨s2, e4, e⟩ := Res.bind_eq_ok.mp e
        cases e
        exact h3.trans (pm2_outputByte_le _ _ _ e4)
    · obtain ⟨cnt, e3, e⟩ := Res.bind_eq_ok.mp e
      have h3 : SrcLe s.bits.src cnt.2.src := by
        split at e3
        · cases e3
          exact h2
        · split at e3
          · exact h2.trans (pma_decodeVarLen_le _ _ _ _ cnt.1 cnt.2 e3)
          · cases e3
            exact h2
      obtain ⟨off, e4, e⟩ := Res.bind_eq_ok.mp e
      have h4 := h3.trans (pm2_historyGetOffset_le _ _ off.1 off.2 e4)
      split at e
      · split at e
        · cases e
          exact h4
        · obtain ⟨r, e5, e⟩ := Res.bind_eq_ok.mp e
          cases e
          exact h4.trans (pm2_copyLoop_le _ _ _ _ r.1 r.2 e5)
      · cases e
        exact h4

theorem honest_pm2 : Honest Pm2.dec := by
  refine ⟨fun src h => h, ?_⟩
  intro st o st' e
  exact pm2_read_le st o st' e

/-! ## -pm1- -/

theorem pm1_outputted_bits (s : Pm1.St) (b : UInt8) (s' : Pm1.St) (e : Pm1.outputted s b = .ok s') :
    s'.bits = s.bits := by
  unfold Pm1.outputted at e
  split at e
  · obtain ⟨h, _, e⟩ := Res.bind_eq_ok.mp e
    cases e
    rfl
  · cases e

theorem pm1_readCopyByteCount_le (r : Bits) : SrcLe r.src (Pm1.readCopyByteCount r).2.src := by
  unfold Pm1.readCopyByteCount
  dsimp only
  have h1 := readBits_le r 2
  split
  · exact h1
  · split
    · exact h1
    · have h2 := h1.trans (readBits_le (r.readBits 2).2 3)
      split
      · exact h2
      · split
        · exact h2
        · split
          · exact h2.trans (readBits_le _ 2)
          · split
            · exact h2.trans (readBits_le _ 3)
            · have h3 := h2.trans (readBits_le ((r.readBits 2).2.readBits 3).2 6)
              split
              · exact h3
              · split
                · exact h3
                · split
                  · exact h3.trans (readBits_le _ 5)
                  · exact h3.trans (readBits_le _ 7)

theorem pm1_bitAfter_le (s : Pm1.St) (r : Bits) (threshold deflt : Nat) :
    SrcLe r.src (Pm1.bitAfter s r threshold deflt).2.src := by
  unfold Pm1.bitAfter
  split
  · exact readBit_le r
  · exact SrcLe.refl _

theorem pm1_readCopyTypeRange_le (s : Pm1.St) :
    SrcLe s.bits.src (Pm1.readCopyTypeRange s).2.src := by
  unfold Pm1.readCopyTypeRange
  dsimp only
  have h1 := readBit_le s.bits
  split
  · exact h1
  · have h2 := h1.trans (pm1_bitAfter_le s s.bits.readBit.2 576 0)
    split
    · exact h2
    · split
      · exact h2
      · exact h2.trans (pm1_bitAfter_le s _ 64 0)
  · have h2 := h1.trans (pm1_bitAfter_le s s.bits.readBit.2 64 1)
    split
    · exact h2
    · exact h2
    · have h3 := h2.trans (pm1_bitAfter_le s (Pm1.bitAfter s s.bits.readBit.2 64 1).2 2624 1)
      split
      · exact h3
      · split
        · exact h3
        · exact h3

theorem pm1_copyLoop_bits : ∀ (k idx : Nat) (s : Pm1.St) (acc : List UInt8) (s' : Pm1.St) (o : List UInt8),
    Pm1.copyLoop k idx s acc = .ok (s', o) → s'.bits = s.bits := by
  intro k
  induction k with
  | zero =>
    intro idx s acc s' o e
    simp only [Pm1.copyLoop, Res.ok.injEq, Prod.mk.injEq] at e
    rw [← e.1]
  | succ k ih =>
    intro idx s acc s' o e
    unfold Pm1.copyLoop at e
    split at e
    · cases e
    · obtain ⟨s1, e1, e2⟩ := Res.bind_eq_ok.mp e
      rw [ih _ _ _ _ _ e2, pm1_outputted_bits _ _ _ e1]

theorem pm1_readCopyCommand_le (s : Pm1.St) (o : List UInt8) (s' : Pm1.St)
    (e : Pm1.readCopyCommand s = .ok (o, s')) : SrcLe s.bits.src s'.bits.src := by
  unfold Pm1.readCopyCommand at e
  dsimp only at e
  have h1 := pm1_readCopyTypeRange_le s
  split at e
  · cases e
    exact h1
  · rename_i ri _
    have h2 : SrcLe s.bits.src
        (if ri < 2 then ((some 2 : Option Nat), (Pm1.readCopyTypeRange s).2)
          else Pm1.readCopyByteCount (Pm1.readCopyTypeRange s).2).2.src := by
      split
      · exact h1
      · exact h1.trans (pm1_readCopyByteCount_le _)
    split at e
    · cases e
      exact h2
    · obtain ⟨d, e1, e⟩ := Res.bind_eq_ok.mp e
      have h3 := h2.trans (pma_decodeVarLen_le _ _ _ _ d.1 d.2 e1)
      split at e
      · cases e
        exact h3
      · split at e
        · cases e
          exact h3
        · obtain ⟨r, e2, e⟩ := Res.bind_eq_ok.mp e
          cases e
          have hb := pm1_copyLoop_bits _ _ _ _ r.1 r.2 e2
          rw [hb]
          exact h3

theorem pm1_treeWalk_le : ∀ (k ptr : Nat) (r : Bits), StepLe r (Pm1.treeWalk k ptr r) := by
  intro k
  induction k with
  | zero =>
    intro ptr r a r' e
    simp only [Pm1.treeWalk] at e
    cases e
  | succ k ih =>
    intro ptr r a r' e
    unfold Pm1.treeWalk at e
    dsimp only at e
    have h1 := readBit_le r
    split at e
    · cases e
      exact h1
    · split at e
      · cases e
      · repeat' split at e
        all_goals first | (cases e; exact h1) | exact h1.trans (ih _ _ a r' e)

theorem pm1_readByteDecodeIndex_le (s : Pm1.St) (row : Nat) :
    StepLe s.bits (Pm1.readByteDecodeIndex s row) := by
  intro a r' e
  unfold Pm1.readByteDecodeIndex at e
  split at e
  · cases e
  · cases e
    exact SrcLe.refl _
  · exact pm1_treeWalk_le _ _ _ a r' e

theorem pm1_readByte_le (s : Pm1.St) (row : Nat) : StepLe s.bits (Pm1.readByte s row) := by
  intro a r' e
  unfold Pm1.readByte at e
  obtain ⟨i, e1, e⟩ := Res.bind_eq_ok.mp e
  have h1 := pm1_readByteDecodeIndex_le s row i.1 i.2 e1
  split at e
  · cases e
    exact h1
  · obtain ⟨c, e2, e⟩ := Res.bind_eq_ok.mp e
    have h2 := h1.trans (pma_decodeVarLen_le _ _ _ _ c.1 c.2 e2)
    split at e
    · cases e
      exact h2
    · obtain ⟨b, _, e⟩ := Res.bind_eq_ok.mp e
      cases e
      exact h2

theorem pm1_readByteBlockCount_le (r : Bits) : SrcLe r.src (Pm1.readByteBlockCount r).2.src := by
  unfold Pm1.readByteBlockCount
  dsimp only
  have h1 := readBits_le r 2
  split
  · exact h1
  · split
    · exact h1
    · have h2 := h1.trans (readBits_le (r.readBits 2).2 3)
      split
      · exact h2
      · split
        · exact h2
        · have h3 := h2.trans (readBits_le ((r.readBits 2).2.readBits 3).2 4)
          split
          · exact h3
          · split
            · exact h3
            · split
              · exact h3.trans (readBits_le _ 6)
              · exact h3.trans (readBits_le _ 7)

theorem pm1_byteLoop_le (row : Nat) : ∀ (k : Nat) (s : Pm1.St) (acc : List UInt8)
    (o : Option (List UInt8)) (s' : Pm1.St),
    Pm1.byteLoop row k s acc = .ok (o, s') → SrcLe s.bits.src s'.bits.src := by
  intro k
  induction k with
  | zero =>
    intro s acc o s' e
    simp only [Pm1.byteLoop, Res.ok.injEq, Prod.mk.injEq] at e
    rw [← e.2]; exact SrcLe.refl _
  | succ k ih =>
    intro s acc o s' e
    unfold Pm1.byteLoop at e
    obtain ⟨b, e1, e⟩ := Res.bind_eq_ok.mp e
    have h1 := pm1_readByte_le s row b.1 b.2 e1
    split at e
    · cases e
      exact h1
    · obtain ⟨s1, e2, e⟩ := Res.bind_eq_ok.mp e
      have hb := pm1_outputted_bits _ _ _ e2
      have h2 := ih _ _ _ _ e
      rw [hb] at h2
      exact h1.trans h2

theorem pm1_readByteBlock_le (s : Pm1.St) (row : Nat) (o : List UInt8) (s' : Pm1.St)
    (e : Pm1.readByteBlock s row = .ok (o, s')) : SrcLe s.bits.src s'.bits.src := by
  unfold Pm1.readByteBlock at e
  dsimp only at e
  have h1 := pm1_readByteBlockCount_le s.bits
  split at e
  · cases e
    exact h1
  · obtain ⟨r, e1, e⟩ := Res.bind_eq_ok.mp e
    have h2 : SrcLe s.bits.src r.2.bits.src := h1.trans (pm1_byteLoop_le _ _ _ _ r.1 r.2 e1)
    split at e
    · cases e
      exact h2
    · split at e
      · cases e
        exact h2
      · obtain ⟨c, e2, e⟩ := Res.bind_eq_ok.mp e
        have h3 := h2.trans (pm1_readCopyCommand_le _ c.1 c.2 e2)
        split at e
        · cases e
          exact h3
        · cases e
          exact h3

theorem pm1_read_le (s : Pm1.St) (o : List UInt8) (s' : Pm1.St) (e : Pm1.read s = .ok (o, s')) :
    SrcLe s.bits.src s'.bits.src := by
  have key : ∀ (row : Nat) (s1 : Pm1.St),
      (if row ≥ Gen.pm1TreeRows then
          (.fault "pm1: byte_decode_trees[index] row" : Res (List UInt8 × Pm1.St))
        else if s1.bits.readBit.1 = some 0 then
          Pm1.readCopyCommand { s1 with bits := s1.bits.readBit.2 }
        else Pm1.readByteBlock { s1 with bits := s1.bits.readBit.2 } row) = .ok (o, s') →
      SrcLe s1.bits.src s'.bits.src := by
    intro row s1 e
    have h0 := readBit_le s1.bits
    split at e
    · cases e
    · split at e
      · exact h0.trans (pm1_readCopyCommand_le _ _ _ e)
      · exact h0.trans (pm1_readByteBlock_le _ _ _ _ e)
  unfold Pm1.read at e
  dsimp only at e
  split at e
  · cases e
    exact SrcLe.refl _
  · rename_i row s1 hh
    have h1 : SrcLe s.bits.src s1.bits.src := by
      split at hh
      · cases hh
        exact SrcLe.refl _
      · split at hh
        · cases hh
        · cases hh
          exact readBits_le s.bits 5
    exact h1.trans (key row s1 e)

theorem honest_pm1 : Honest Pm1.dec := by
  refine ⟨?_, ?_⟩
  · intro src h
    exact h
  · intro st o st' e
    exact pm1_read_le st o st' e

end LhasaV.ReaderIndep
