import LhasaV.Model.Reader
import LhasaV.Lemmas.Res
import LhasaV.Lemmas.HeaderSound
/-!
C16 / C13 / C08 for `lib/lha_input_stream.c`: the self-extractor scan, the four
stream kinds, and step bounds.
-/
set_option linter.unusedSimpArgs false
namespace LhasaV.Stream
open LhasaV

/-! ## 0. Declarative specification of the scan -/

/-- what `file_header_match(bs + i)` tests: `-` at `i+2`, `i+6` and a known method pattern.
Bytes outside the list read as 0, so `sigAt bs i → i + 6 < bs.length`. -/
def sigAt (bs : List UInt8) (i : Nat) : Prop :=
  bs.getD (i+2) 0 = chr '-' ∧ bs.getD (i+6) 0 = chr '-' ∧
  ((bs.getD (i+3) 0 = chr 'l' ∧ bs.getD (i+4) 0 = chr 'h') ∨
   (bs.getD (i+3) 0 = chr 'l' ∧ bs.getD (i+4) 0 = chr 'z' ∧
      (bs.getD (i+5) 0 = chr '4' ∨ bs.getD (i+5) 0 = chr '5' ∨ bs.getD (i+5) 0 = chr 's')) ∨
   (bs.getD (i+3) 0 = chr 'p' ∧ bs.getD (i+4) 0 = chr 'm' ∧ bs.getD (i+5) 0 ≠ chr 's'))

instance (bs : List UInt8) (i : Nat) : Decidable (sigAt bs i) := by unfold sigAt; infer_instance

/-- one of the two SFX marker strings (`LHA-SFX`, `LhASFX V1.2,`) starts at offset `i` -/
def markAt (bs : List UInt8) (i : Nat) : Prop :=
  (bs.drop i).take 7 = Gen.sfxIdDeclha.map UInt8.ofNat ∨
  (bs.drop i).take 12 = Gen.sfxIdAmiga.map UInt8.ofNat

instance (bs : List UInt8) (i : Nat) : Decidable (markAt bs i) := by unfold markAt; infer_instance

/-- the `skip_files` counter after offset `i` has been examined (and was not the answer) -/
def stepCtr (bs : List UInt8) (i sf : Nat) : Nat :=
  if markAt bs i then 1 else if sigAt bs i then sf - 1 else sf

/-- examine the `k` offsets `i, i+1, …, i+k-1` in order with decoy counter `sf` -/
def firstFrom (bs : List UInt8) : Nat → Nat → Nat → Option Nat
  | 0, _, _ => none
  | k+1, i, sf =>
    if sigAt bs i ∧ sf = 0 then some i
    else firstFrom bs k (i+1) (stepCtr bs i sf)

/-- the decoy counter after the `k` offsets from `i` on (meaningful when none of them answered) -/
def ctrAfter (bs : List UInt8) : Nat → Nat → Nat → Nat
  | 0, _, sf => sf
  | k+1, i, sf => ctrAfter bs k (i+1) (stepCtr bs i sf)

/-- The exact number of offsets the C can examine because of `MAX_SFX_HEADER_LEN`:
the window start advances in steps of 12, the outer loop runs while it is `< 262144`, and
`262144 = 12 * 21845 + 4`, so the last window starts at `262140` and covers offsets
`262140 … 262151`. -/
def scanLimit : Nat := Gen.maxSfxHeaderLen + 8

/-- offsets `0 ≤ i < min (bs.length - 12) lim` are examined, in order, each once -/
def firstHeaderLim (lim : Nat) (bs : List UInt8) : Option Nat :=
  firstFrom bs (min (bs.length - 12) lim) 0 0

/-- the offset `skip_sfx` is meant to find: an offset `i` is examined iff
`i + 12 < bs.length ∧ i < Gen.maxSfxHeaderLen + 8` -/
def firstHeader (bs : List UInt8) : Option Nat := firstHeaderLim scanLimit bs

/-! ## 1. the model's window scan against the spec, on one window -/

theorem lget_ok {l : List UInt8} {i : Nat} (h : i < l.length) : lget l i = .ok (l.getD i 0) := by
  unfold lget
  simp [List.getD, List.getElem?_eq_getElem h]

theorem headerMatch_eq {l : List UInt8} {i : Nat} (h : i + 6 < l.length) :
    headerMatch l i = .ok (decide (sigAt l i)) := by
  unfold headerMatch sigAt
  rw [lget_ok (show i + 2 < l.length by omega), lget_ok (show i + 6 < l.length by omega),
      lget_ok (show i + 3 < l.length by omega), lget_ok (show i + 4 < l.length by omega),
      lget_ok (show i + 5 < l.length by omega)]
  simp only [Res.ok_bind]
  repeat' split
  all_goals (simp only [Res.pure_eq, Res.ok.injEq, Bool.false_eq, Bool.true_eq, decide_eq_true_eq, decide_eq_false_iff_not]; grind)

theorem markerAt_declha {l : List UInt8} {i : Nat} (h : i + 12 ≤ l.length) :
    markerAt l i Gen.sfxIdDeclha = .ok (decide ((l.drop i).take 7 = Gen.sfxIdDeclha.map UInt8.ofNat)) := by
  have e : Gen.sfxIdDeclha.length = 7 := rfl
  unfold markerAt
  rw [e, if_pos (by omega), Bool.beq_eq_decide_eq]

theorem markerAt_amiga {l : List UInt8} {i : Nat} (h : i + 12 ≤ l.length) :
    markerAt l i Gen.sfxIdAmiga = .ok (decide ((l.drop i).take 12 = Gen.sfxIdAmiga.map UInt8.ofNat)) := by
  have e : Gen.sfxIdAmiga.length = 12 := rfl
  unfold markerAt
  rw [e, if_pos (by omega), Bool.beq_eq_decide_eq]

/-- the model's inner loop on a window `l`, all of whose examined offsets have 13 bytes:
it never faults and computes exactly the spec scan of `l` -/
theorem scan_eq (l : List UInt8) : ∀ (k i sf : Nat), (k ≠ 0 → i + k + 12 ≤ l.length) →
    scan l k i sf = .ok (match firstFrom l k i sf with
                         | some j => .found j
                         | none => .done (i + k) (ctrAfter l k i sf)) := by
  intro k
  induction k with
  | zero => intro i sf _; simp [scan, firstFrom, ctrAfter]
  | succ k ih =>
    intro i sf h
    have h := h (by omega)
    unfold scan
    rw [headerMatch_eq (by omega), markerAt_declha (by omega), markerAt_amiga (by omega)]
    simp only [Res.ok_bind, firstFrom, ctrAfter]
    by_cases hs : sigAt l i ∧ sf = 0
    · simp [hs]
    · rw [if_neg hs]
      have : (if (decide (sigAt l i) = true) ∧ sf = 0 then (pure (Scan.found i) : Res Scan) else
          scan l k (i+1) (if (decide ((l.drop i).take 7 = Gen.sfxIdDeclha.map UInt8.ofNat) = true) ∨
            (decide ((l.drop i).take 12 = Gen.sfxIdAmiga.map UInt8.ofNat) = true) then 1
            else if decide (sigAt l i) = true then sf - 1 else sf))
          = scan l k (i+1) (stepCtr l i sf) := by
        rw [if_neg (by simpa using hs)]
        congr 1
        unfold stepCtr markAt
        simp
      rw [this, ih (i+1) _ (by omega)]
      simp [Nat.add_assoc, Nat.add_comm 1 k]

/-! ## 2. the source -/

/-- the bytes the source can still deliver -/
def src (s : St) : List UInt8 := s.data.toList.drop s.pos

theorem src_length (s : St) : (src s).length = s.data.size - s.pos := by simp [src]

theorem extract_eq_src (s : St) : (s.data.extract s.pos s.data.size).toList = src s := by
  simp only [src, Array.toList_extract, List.extract_eq_take_drop]
  exact List.take_of_length_le (by simp)

theorem rest_eq (s : St) : rest s = s.leadin ++ src s := by rw [rest, extract_eq_src]

theorem doRead_fst (s : St) (n : Nat) : (doRead s n).1 = (src s).take n := by
  simp only [doRead, src, Array.toList_extract, List.extract_eq_take_drop]
  rw [Nat.add_sub_cancel_left]
  apply List.ext_getElem?
  intro i
  simp only [List.getElem?_take, List.getElem?_drop]
  by_cases h : i < n
  · simp only [h, if_true]
    split
    · rfl
    · rename_i h2
      rw [List.getElem?_eq_none]
      simp; omega
  · have : ¬ i < min n (s.data.size - s.pos) := by omega
    simp [h, this]

theorem doRead_src (s : St) (n : Nat) : src (doRead s n).2 = (src s).drop n := by
  simp only [doRead, src, List.drop_drop]
  by_cases h : n ≤ s.data.size - s.pos
  · rw [Nat.min_eq_left h]
  · rw [Nat.min_eq_right (by omega), List.drop_of_length_le (by simp; omega), List.drop_of_length_le (by simp; omega)]

/-! ## 3. one round of `skip_sfx` -/

theorem doRead_length_le (s : St) (n : Nat) : (doRead s n).1.length ≤ n := by
  rw [doRead_fst, List.length_take]; omega

/-- the window of one round -/
def window (s : St) : List UInt8 := s.leadin ++ (doRead s (24 - s.leadin.length)).1

theorem window_eq (s : St) (h : s.leadin.length ≤ 24) : window s = (rest s).take 24 := by
  rw [window, doRead_fst, rest_eq, List.take_append, List.take_of_length_le h]

theorem window_length_le (s : St) (h : s.leadin.length ≤ 24) : (window s).length ≤ 24 := by
  rw [window_eq s h, List.length_take]; omega

/-- the state after a round that dropped `j` bytes of the window -/
def afterRound (s : St) (j : Nat) : St :=
  { (doRead s (24 - s.leadin.length)).2 with leadin := (window s).drop j }

/-- one round of `skip_sfx`, with the inner loop replaced by its specification -/
theorem skipSfx_succ (fuel fp sf : Nat) (s : St) (hl : s.leadin.length ≤ 24)
    (hfp : fp < Gen.maxSfxHeaderLen) :
    skipSfx (fuel+1) fp sf s =
      if (doRead s (24 - s.leadin.length)).1.isEmpty then .ok (false, (doRead s (24 - s.leadin.length)).2)
      else match firstFrom (window s) ((window s).length - 12) 0 sf with
        | some j => .ok (true, afterRound s j)
        | none => skipSfx fuel (fp + ((window s).length - 12))
                    (ctrAfter (window s) ((window s).length - 12) 0 sf)
                    (afterRound s ((window s).length - 12)) := by
  have hw := window_length_le s hl
  rw [skipSfx, if_pos hfp]
  change (if s.leadin.length > 24 then _ else
    if (doRead s (24 - s.leadin.length)).1.isEmpty then _ else
    if (window s).length > 24 then _ else
      (scan (window s) ((window s).length - 12) 0 sf >>= _)) = _
  rw [if_neg (show ¬ s.leadin.length > 24 by omega)]
  split
  · rfl
  · rw [if_neg (show ¬ (window s).length > 24 by omega), scan_eq _ _ _ _ (by omega)]
    simp only [Res.ok_bind, Nat.zero_add]
    cases firstFrom (window s) ((window s).length - 12) 0 sf <;> rfl

theorem skipSfx_ge (fuel fp sf : Nat) (s : St) (hfp : ¬ fp < Gen.maxSfxHeaderLen) :
    skipSfx fuel fp sf s = .ok (false, s) := by
  cases fuel <;> simp [skipSfx, hfp]


/-! ## 4. no fault (task part 1) -/

@[simp] theorem afterRound_data (s : St) (j : Nat) : (afterRound s j).data = s.data := rfl
@[simp] theorem afterRound_kind (s : St) (j : Nat) : (afterRound s j).kind = s.kind := rfl
@[simp] theorem afterRound_phase (s : St) (j : Nat) : (afterRound s j).phase = s.phase := rfl
@[simp] theorem afterRound_leadin (s : St) (j : Nat) : (afterRound s j).leadin = (window s).drop j := rfl
@[simp] theorem afterRound_reads (s : St) (j : Nat) : (afterRound s j).reads = s.reads + 1 := rfl
theorem afterRound_pos (s : St) (j : Nat) :
    (afterRound s j).pos = s.pos + min (24 - s.leadin.length) (s.data.size - s.pos) := rfl
theorem afterRound_moved (s : St) (j : Nat) :
    (afterRound s j).moved = s.moved + min (24 - s.leadin.length) (s.data.size - s.pos) := rfl

/-- **No fault (C08/C13), general form.** From any state whose lead-in fits the 24-byte
buffer, `skip_sfx` returns normally, the lead-in still fits, and only `pos`, `leadin` and
the counters change. -/
theorem skipSfx_ok : ∀ (fuel fp sf : Nat) (s : St), s.leadin.length ≤ 24 →
    ∃ b s', skipSfx fuel fp sf s = .ok (b, s') ∧ s'.leadin.length ≤ 24 ∧
      s'.data = s.data ∧ s'.kind = s.kind ∧ s'.phase = s.phase := by
  intro fuel
  induction fuel with
  | zero => intro fp sf s h; exact ⟨false, s, rfl, h, rfl, rfl, rfl⟩
  | succ fuel ih =>
    intro fp sf s h
    by_cases hfp : fp < Gen.maxSfxHeaderLen
    · rw [skipSfx_succ fuel fp sf s h hfp]
      have hw := window_length_le s h
      split
      · exact ⟨false, _, rfl, h, rfl, rfl, rfl⟩
      · split
        · exact ⟨true, _, rfl, by simp; omega, rfl, rfl, rfl⟩
        · obtain ⟨b, s', e, h1, h2, h3, h4⟩ := ih (fp + ((window s).length - 12))
            (ctrAfter (window s) ((window s).length - 12) 0 sf)
            (afterRound s ((window s).length - 12)) (by simp; omega)
          exact ⟨b, s', e, h1, by simpa using h2, by simpa using h3, by simpa using h4⟩
    · rw [skipSfx_ge _ _ _ _ hfp]; exact ⟨false, s, rfl, h, rfl, rfl, rfl⟩

theorem phase_beq (a b : Phase) : (a == b) = decide (a = b) := by cases a <;> cases b <;> rfl

/-- **No fault for `start`**: never a fault (nor a failure return), lead-in bound kept -/
theorem start_ok (s : St) (h : s.leadin.length ≤ 24) :
    ∃ s', start s = .ok s' ∧ s'.leadin.length ≤ 24 ∧ s'.data = s.data ∧ s'.kind = s.kind ∧
      (s.phase ≠ .init → s' = s) ∧ s'.phase ≠ .init := by
  unfold start
  by_cases hp : s.phase = .init
  · obtain ⟨b, s', e, h1, h2, h3, _⟩ := skipSfx_ok (s.data.size - s.pos + 1) 0 0 s h
    simp only [hp, phase_beq, decide_true, if_true, e, Res.ok_bind]
    refine ⟨_, rfl, h1, h2, h3, fun h => absurd rfl h, ?_⟩
    cases b <;> simp
  · simp only [phase_beq, hp, decide_false, Bool.false_eq_true, if_false]
    exact ⟨s, rfl, h, rfl, rfl, fun _ => rfl, hp⟩

theorem start_noFault (s : St) (h : s.leadin.length ≤ 24) : Res.NoFault (start s) := by
  obtain ⟨s', e, _⟩ := start_ok s h
  rw [e]; exact Res.noFault_ok _

/-- **No fault for `read`** -/
theorem read_ok (s : St) (n : Nat) (h : s.leadin.length ≤ 24) :
    ∃ o s', read s n = .ok (o, s') ∧ s'.leadin.length ≤ 24 ∧ s'.data = s.data ∧ s'.kind = s.kind := by
  obtain ⟨s1, e, h1, h2, h3, _⟩ := start_ok s h
  unfold read
  simp only [e, Res.ok_bind]
  split
  · exact ⟨_, _, rfl, h1, h2, h3⟩
  · split
    · split
      · exact ⟨_, _, rfl, by simp [doRead]; omega, by simp [doRead, h2], by simp [doRead, h3]⟩
      · exact ⟨_, _, rfl, by simp [doRead]; omega, by simp [doRead, h2], by simp [doRead, h3]⟩
    · exact ⟨_, _, rfl, by simp; omega, h2, h3⟩

theorem read_noFault (s : St) (n : Nat) (h : s.leadin.length ≤ 24) : Res.NoFault (read s n) := by
  obtain ⟨o, s', e, _⟩ := read_ok s n h
  rw [e]; exact Res.noFault_ok _


/-! ## 5. algebra of the spec scan -/

theorem firstFrom_add (bs : List UInt8) : ∀ (a b i sf : Nat),
    firstFrom bs (a + b) i sf =
      match firstFrom bs a i sf with
      | some j => some j
      | none => firstFrom bs b (i + a) (ctrAfter bs a i sf) := by
  intro a
  induction a with
  | zero => intro b i sf; simp [firstFrom, ctrAfter]
  | succ a ih =>
    intro b i sf
    rw [show a + 1 + b = (a + b) + 1 by omega]
    simp only [firstFrom, ctrAfter]
    by_cases h : sigAt bs i ∧ sf = 0
    · simp [h]
    · rw [if_neg h, if_neg h, ih, show i + 1 + a = i + (a + 1) by omega]

theorem ctrAfter_add (bs : List UInt8) : ∀ (a b i sf : Nat),
    ctrAfter bs (a + b) i sf = ctrAfter bs b (i + a) (ctrAfter bs a i sf) := by
  intro a
  induction a with
  | zero => intro b i sf; simp [ctrAfter]
  | succ a ih =>
    intro b i sf
    rw [show a + 1 + b = (a + b) + 1 by omega]
    simp only [ctrAfter]
    rw [ih, show i + 1 + a = i + (a + 1) by omega]

/-- the scan is local: it only depends on `sigAt` / `markAt` at the examined offsets -/
theorem firstFrom_shift (A B : List UInt8) (d : Nat) : ∀ (k i sf : Nat),
    (∀ j, i ≤ j → j < i + k → (sigAt A (j + d) ↔ sigAt B j) ∧ (markAt A (j + d) ↔ markAt B j)) →
    firstFrom A k (i + d) sf = (firstFrom B k i sf).map (· + d) ∧
    ctrAfter A k (i + d) sf = ctrAfter B k i sf := by
  intro k
  induction k with
  | zero => intro i sf _; simp [firstFrom, ctrAfter]
  | succ k ih =>
    intro i sf h
    obtain ⟨h1, h2⟩ := h i (Nat.le_refl _) (by omega)
    have e : stepCtr A (i + d) sf = stepCtr B i sf := by simp [stepCtr, h1, h2]
    simp only [firstFrom, ctrAfter, h1, e]
    have ih' := ih (i+1) (stepCtr B i sf) (fun j hj hj' => h j (by omega) (by omega))
    rw [show i + 1 + d = i + d + 1 by omega] at ih'
    refine ⟨?_, ih'.2⟩
    by_cases hs : sigAt B i ∧ sf = 0
    · simp [hs]
    · simp [hs, ih'.1]

theorem sigAt_drop (bs : List UInt8) (p j : Nat) : sigAt (bs.drop p) j ↔ sigAt bs (j + p) := by
  simp only [sigAt, List.getD_eq_getElem?_getD, List.getElem?_drop]
  rw [show p + (j + 2) = j + p + 2 by omega, show p + (j + 3) = j + p + 3 by omega,
      show p + (j + 4) = j + p + 4 by omega, show p + (j + 5) = j + p + 5 by omega,
      show p + (j + 6) = j + p + 6 by omega]

theorem markAt_drop (bs : List UInt8) (p j : Nat) : markAt (bs.drop p) j ↔ markAt bs (j + p) := by
  simp only [markAt, List.drop_drop, Nat.add_comm]

theorem sigAt_take (bs : List UInt8) (w j : Nat) (h : j + 7 ≤ w) : sigAt (bs.take w) j ↔ sigAt bs j := by
  simp only [sigAt, List.getD_eq_getElem?_getD, List.getElem?_take]
  rw [if_pos (by omega), if_pos (by omega), if_pos (by omega), if_pos (by omega), if_pos (by omega)]

theorem markAt_take (bs : List UInt8) (w j : Nat) (h : j + 12 ≤ w) : markAt (bs.take w) j ↔ markAt bs j := by
  simp only [markAt, List.drop_take, List.take_take]
  rw [Nat.min_eq_left (by omega), Nat.min_eq_left (by omega)]

theorem sigAt_append (P A : List UInt8) (j : Nat) : sigAt (P ++ A) (j + P.length) ↔ sigAt A j := by
  have := sigAt_drop (P ++ A) P.length j
  rw [List.drop_left] at this
  exact this.symm

theorem markAt_append (P A : List UInt8) (j : Nat) : markAt (P ++ A) (j + P.length) ↔ markAt A j := by
  have := markAt_drop (P ++ A) P.length j
  rw [List.drop_left] at this
  exact this.symm


/-! ## 6. the scan finds the specified header (task part 2) -/

theorem src_afterRound (s : St) (j : Nat) :
    src (afterRound s j) = (src s).drop (24 - s.leadin.length) := doRead_src s _

theorem firstFrom_some (bs : List UInt8) : ∀ (k i sf j : Nat), firstFrom bs k i sf = some j →
    i ≤ j ∧ j < i + k ∧ sigAt bs j := by
  intro k
  induction k with
  | zero => intro i sf j h; simp [firstFrom] at h
  | succ k ih =>
    intro i sf j h
    simp only [firstFrom] at h
    split at h
    · rename_i hs
      cases h
      exact ⟨Nat.le_refl _, by omega, hs.1⟩
    · obtain ⟨h1, h2, h3⟩ := ih _ _ _ h
      exact ⟨by omega, by omega, h3⟩

theorem rest_afterRound (s : St) (j : Nat) (_hl : s.leadin.length ≤ 24) (hj : j ≤ (window s).length) :
    rest (afterRound s j) = (rest s).drop j := by
  have e : rest s = window s ++ (src s).drop (24 - s.leadin.length) := by
    rw [rest_eq, window, doRead_fst, List.append_assoc, List.take_append_drop]
  rw [e, List.drop_append, show j - (window s).length = 0 by omega, List.drop_zero]
  rw [rest_eq, afterRound_leadin]
  congr 1
  exact doRead_src s _

/-- the window scan is the spec scan of the whole list at the window's position -/
theorem window_scan (bs : List UInt8) (fp : Nat) (s : St) (hl : s.leadin.length ≤ 24)
    (hr : rest s = bs.drop fp) (sf : Nat) :
    firstFrom bs ((window s).length - 12) fp sf
        = (firstFrom (window s) ((window s).length - 12) 0 sf).map (· + fp) ∧
    ctrAfter bs ((window s).length - 12) fp sf = ctrAfter (window s) ((window s).length - 12) 0 sf := by
  have hw := window_length_le s hl
  have := firstFrom_shift bs (window s) fp ((window s).length - 12) 0 sf (by
    intro j _ hj
    rw [window_eq s hl, hr]
    rw [sigAt_take _ _ _ (by omega), markAt_take _ _ _ (by omega), sigAt_drop, markAt_drop]
    exact ⟨Iff.rfl, Iff.rfl⟩)
  simpa using this

/-- number of offsets examined in a list of length `L` under the limit `lim` -/
def examined (lim L : Nat) : Nat := min (L - 12) lim

theorem skipSfx_spec (bs : List UInt8) : ∀ (fuel fp sf : Nat) (s : St),
    s.leadin.length ≤ 12 → rest s = bs.drop fp →
    (fp % 12 = 0 ∨ bs.length ≤ fp + 12) → (src s).length < fuel →
    ∃ b s', skipSfx fuel fp sf s = .ok (b, s') ∧
      match firstFrom bs (examined scanLimit bs.length - fp) fp sf with
      | some j => b = true ∧ rest s' = bs.drop j
      | none => b = false := by
  have hM : Gen.maxSfxHeaderLen = 262144 := rfl
  have hS : scanLimit = 262152 := rfl
  intro fuel
  induction fuel with
  | zero => intro fp sf s _ _ _ h; omega
  | succ fuel ih =>
    intro fp sf s hl hr hinv hfuel
    have hlen : s.leadin.length + (src s).length = bs.length - fp := by
      have := congrArg List.length hr
      rw [rest_eq] at this
      simpa using this
    by_cases hfp : fp < Gen.maxSfxHeaderLen
    · rw [skipSfx_succ fuel fp sf s (by omega) hfp]
      have hwl : (window s).length = min 24 (bs.length - fp) := by
        rw [window_eq s (by omega), hr]; simp
      by_cases hemp : (doRead s (24 - s.leadin.length)).1.isEmpty
      · rw [if_pos hemp]
        refine ⟨false, _, rfl, ?_⟩
        have h0 : (src s).length = 0 := by
          rw [doRead_fst, List.isEmpty_iff] at hemp
          rcases List.take_eq_nil_iff.mp hemp with h | h
          · omega
          · simp [h]
        have : examined scanLimit bs.length - fp = 0 := by unfold examined; omega
        rw [this]; simp [firstFrom]
      · rw [if_neg hemp]
        have hsrc : 0 < (src s).length := by
          rw [doRead_fst] at hemp
          cases h : src s with
          | nil => simp [h] at hemp
          | cons => simp
        obtain ⟨w1, w2⟩ := window_scan bs fp s (by omega) hr sf
        generalize hk : (window s).length - 12 = k at *
        have hkN : k ≤ examined scanLimit bs.length - fp := by unfold examined; omega
        rw [show examined scanLimit bs.length - fp = k + (examined scanLimit bs.length - fp - k) by omega,
            firstFrom_add, w1, w2]
        cases hF : firstFrom (window s) k 0 sf with
        | some j =>
          refine ⟨true, _, rfl, ?_⟩
          have hj : j ≤ (window s).length := by
            have := firstFrom_some _ _ _ _ _ hF
            omega
          simp only [Option.map_some]
          exact ⟨by simp, by rw [rest_afterRound s j (by omega) hj, hr, List.drop_drop, Nat.add_comm]⟩
        | none =>
          simp only [Option.map_none]
          have := ih (fp + k) (ctrAfter (window s) k 0 sf) (afterRound s k)
            (by simp; omega)
            (by rw [rest_afterRound s k (by omega) (by omega), hr, List.drop_drop])
            (by omega)
            (by rw [src_afterRound]; simp; omega)
          rw [show examined scanLimit bs.length - (fp + k) = examined scanLimit bs.length - fp - k by omega] at this
          exact this
    · rw [skipSfx_ge _ _ _ _ hfp]
      refine ⟨false, s, rfl, ?_⟩
      have : examined scanLimit bs.length - fp = 0 := by unfold examined; omega
      rw [this]; simp [firstFrom]


/-- **`scan_finds_first`.** On a fresh stream (phase `init`, empty lead-in) whose source holds
the bytes `bs`, `start` (= `skip_sfx`) returns normally; if the specification names offset `i`,
the stream is `reading` and will deliver exactly `bs.drop i`; otherwise the stream is `fail`. -/
theorem scan_finds_first (s : St) (hp : s.phase = .init) (hl : s.leadin = [])
    (bs : List UInt8) (hbs : bs = (s.data.extract s.pos s.data.size).toList) :
    ∃ s', start s = .ok s' ∧ s'.data = s.data ∧ s'.kind = s.kind ∧ s'.leadin.length ≤ 24 ∧
      match firstHeader bs with
      | some i => s'.phase = .reading ∧ rest s' = bs.drop i
      | none => s'.phase = .fail := by
  rw [extract_eq_src] at hbs
  obtain ⟨b, s', e, hspec⟩ := skipSfx_spec bs (s.data.size - s.pos + 1) 0 0 s (by simp [hl])
    (by rw [rest_eq, hl, hbs]; rfl) (Or.inl rfl) (by rw [src_length]; omega)
  obtain ⟨b', s'', e', h1, h2, h3, _⟩ := skipSfx_ok (s.data.size - s.pos + 1) 0 0 s (by simp [hl])
  rw [e] at e'; cases e'
  unfold start
  simp only [hp, phase_beq, decide_true, if_true, e, Res.ok_bind]
  refine ⟨_, rfl, h2, h3, h1, ?_⟩
  simp only [Nat.sub_zero] at hspec
  unfold firstHeader firstHeaderLim
  unfold examined at hspec
  cases hF : firstFrom bs (min (bs.length - 12) scanLimit) 0 0 with
  | some i => rw [hF] at hspec; simp only [hspec.1, if_true]; exact ⟨trivial, hspec.2⟩
  | none => rw [hF] at hspec; simp only [hspec]; rfl


/-- what the answer of the specification means: offset `i` was examined and carries a signature -/
theorem firstHeader_some {bs : List UInt8} {i : Nat} (h : firstHeader bs = some i) :
    i + 12 < bs.length ∧ i < Gen.maxSfxHeaderLen + 8 ∧ sigAt bs i := by
  obtain ⟨_, h2, h3⟩ := firstFrom_some _ _ _ _ _ h
  have : scanLimit = Gen.maxSfxHeaderLen + 8 := rfl
  exact ⟨by omega, by omega, h3⟩

/-! ## 7. prefix transparency (task part 3) -/

theorem firstFrom_none_of_le (bs : List UInt8) {k k' : Nat} (i sf : Nat) (hk : k ≤ k')
    (h : firstFrom bs k' i sf = none) : firstFrom bs k i sf = none := by
  rw [show k' = k + (k' - k) by omega, firstFrom_add] at h
  cases hF : firstFrom bs k i sf with
  | none => rfl
  | some j => rw [hF] at h; cases h

/-- enlarging or shrinking the number of examined offsets does not change an answer that stays in range -/
theorem firstFrom_stable (bs : List UInt8) {k k' i sf j : Nat} (h : firstFrom bs k i sf = some j)
    (hj : j < i + k') : firstFrom bs k' i sf = some j := by
  by_cases hk : k ≤ k'
  · rw [show k' = k + (k' - k) by omega, firstFrom_add, h]
  · rw [show k = k' + (k - k') by omega, firstFrom_add] at h
    cases hF : firstFrom bs k' i sf with
    | some j' => rw [hF] at h; exact h
    | none =>
      rw [hF] at h
      have := firstFrom_some _ _ _ _ _ h
      omega

/-- a stretch of offsets without signature and without marker is invisible -/
theorem seg_clean (bs : List UInt8) : ∀ (k i sf : Nat),
    (∀ j, i ≤ j → j < i + k → ¬ sigAt bs j ∧ ¬ markAt bs j) →
    firstFrom bs k i sf = none ∧ ctrAfter bs k i sf = sf := by
  intro k
  induction k with
  | zero => intro i sf _; simp [firstFrom, ctrAfter]
  | succ k ih =>
    intro i sf h
    obtain ⟨h1, h2⟩ := h i (Nat.le_refl _) (by omega)
    have e : stepCtr bs i sf = sf := by simp [stepCtr, h1, h2]
    simp only [firstFrom, ctrAfter, e, h1, false_and, if_false]
    exact ih (i+1) sf (fun j hj hj' => h j (by omega) (by omega))

/-- a stretch without signature never answers (markers may arm the counter) -/
theorem seg_nosig (bs : List UInt8) : ∀ (k i sf : Nat),
    (∀ j, i ≤ j → j < i + k → ¬ sigAt bs j) → firstFrom bs k i sf = none := by
  intro k
  induction k with
  | zero => intro i sf _; simp [firstFrom]
  | succ k ih =>
    intro i sf h
    have h1 := h i (Nat.le_refl _) (by omega)
    simp only [firstFrom, h1, false_and, if_false]
    exact ih (i+1) _ (fun j hj hj' => h j (by omega) (by omega))

/-- **Prefix transparency, master form.** If the scan of the first `P.length` offsets of
`P ++ A` does not answer and leaves the decoy counter at 0, the scan of `P ++ A` is the scan of
`A`, shifted, under the limit that is left. -/
theorem firstHeader_append (P A : List UInt8)
    (h1 : firstFrom (P ++ A) P.length 0 0 = none) (h2 : ctrAfter (P ++ A) P.length 0 0 = 0) :
    firstHeader (P ++ A) = (firstHeaderLim (scanLimit - P.length) A).map (· + P.length) := by
  unfold firstHeader firstHeaderLim
  rw [List.length_append]
  by_cases hN : min (P.length + A.length - 12) scanLimit ≤ P.length
  · rw [firstFrom_none_of_le _ 0 0 hN h1]
    rw [show min (A.length - 12) (scanLimit - P.length) = 0 by omega]
    simp [firstFrom]
  · rw [show min (P.length + A.length - 12) scanLimit
          = P.length + min (A.length - 12) (scanLimit - P.length) by omega,
        firstFrom_add, h1, h2]
    have := firstFrom_shift (P ++ A) A P.length (min (A.length - 12) (scanLimit - P.length)) 0 0
      (fun j _ _ => ⟨sigAt_append P A j, markAt_append P A j⟩)
    exact this.1

/-- **Prefix transparency.** A prefix `P` without signature or marker at any of its offsets
(judged on `P ++ A`: a match may straddle the boundary) only shifts the answer. -/
theorem firstHeader_prefix (P A : List UInt8)
    (hclean : ∀ j, j < P.length → ¬ sigAt (P ++ A) j ∧ ¬ markAt (P ++ A) j) :
    firstHeader (P ++ A) = (firstHeaderLim (scanLimit - P.length) A).map (· + P.length) := by
  have := seg_clean (P ++ A) P.length 0 0 (fun j _ hj => hclean j (by omega))
  exact firstHeader_append P A this.1 this.2

/-- limit-free corollaries -/
theorem firstHeaderLim_of_firstHeader {A : List UInt8} {i lim : Nat}
    (h : firstHeader A = some i) (hi : i < lim) : firstHeaderLim lim A = some i := by
  have := firstFrom_some _ _ _ _ _ h
  exact firstFrom_stable A h (by omega)

theorem firstHeaderLim_none {A : List UInt8} {lim : Nat}
    (h : firstHeader A = none) (hl : lim ≤ scanLimit) : firstHeaderLim lim A = none :=
  firstFrom_none_of_le A 0 0 (by omega) h

theorem firstHeader_prefix_some (P A : List UInt8) (i : Nat)
    (hclean : ∀ j, j < P.length → ¬ sigAt (P ++ A) j ∧ ¬ markAt (P ++ A) j)
    (hA : firstHeader A = some i) (hlim : P.length + i < Gen.maxSfxHeaderLen + 8) :
    firstHeader (P ++ A) = some (i + P.length) := by
  have : scanLimit = Gen.maxSfxHeaderLen + 8 := rfl
  rw [firstHeader_prefix P A hclean, firstHeaderLim_of_firstHeader hA (by omega)]; rfl

theorem firstHeader_prefix_none (P A : List UInt8)
    (hclean : ∀ j, j < P.length → ¬ sigAt (P ++ A) j ∧ ¬ markAt (P ++ A) j)
    (hA : firstHeader A = none) : firstHeader (P ++ A) = none := by
  rw [firstHeader_prefix P A hclean, firstHeaderLim_none hA (by omega)]; rfl

/-- an archive that starts with a header (and has 13 bytes) behind a clean stub -/
theorem firstHeader_prefix_zero (P A : List UInt8)
    (hclean : ∀ j, j < P.length → ¬ sigAt (P ++ A) j ∧ ¬ markAt (P ++ A) j)
    (hsig : sigAt A 0) (hlen : 12 < A.length) (hlim : P.length < Gen.maxSfxHeaderLen + 8) :
    firstHeader (P ++ A) = some P.length := by
  have hS : scanLimit = Gen.maxSfxHeaderLen + 8 := rfl
  have hA : firstHeader A = some 0 := by
    unfold firstHeader firstHeaderLim
    rw [show min (A.length - 12) scanLimit = (min (A.length - 12) scanLimit - 1) + 1 by
      have : Gen.maxSfxHeaderLen = 262144 := rfl
      omega]
    simp [firstFrom, hsig]
  simpa using firstHeader_prefix_some P A 0 hclean hA (by omega)


/-- a signature and a marker never start at the same offset (byte `i+2` is `-` resp. `A`) -/
theorem sigAt_not_markAt (bs : List UInt8) (i : Nat) (h : sigAt bs i) : ¬ markAt bs i := by
  intro hm
  have h2 : bs.getD (i + 2) 0 = chr '-' := h.1
  have e : ∀ (n : Nat) (x : List UInt8), (bs.drop i).take n = x → 2 < n → bs.getD (i + 2) 0 = x.getD 2 0 := by
    intro n x hx hn
    rw [← hx]
    simp only [List.getD_eq_getElem?_getD, List.getElem?_take, List.getElem?_drop, if_pos hn]
  rcases hm with hm | hm
  · have := e 7 _ hm (by omega)
    rw [h2] at this
    revert this; decide
  · have := e 12 _ hm (by omega)
    rw [h2] at this
    revert this; decide

theorem firstFrom_step (bs : List UInt8) (k i sf : Nat) (h : ¬ (sigAt bs i ∧ sf = 0)) :
    firstFrom bs (1 + k) i sf = firstFrom bs k (i + 1) (stepCtr bs i sf) := by
  rw [Nat.add_comm 1 k]; simp only [firstFrom, if_neg h]

theorem ctrAfter_step (bs : List UInt8) (k i sf : Nat) :
    ctrAfter bs (1 + k) i sf = ctrAfter bs k (i + 1) (stepCtr bs i sf) := by
  rw [Nat.add_comm 1 k]; rfl

/-- the scan over a stretch `[0, n)` that holds a marker at `m`, exactly one signature, at
`d > m`, and no marker after `m`: the signature is consumed as the decoy, nothing answers,
and the counter is back to 0 -/
theorem decoy_segment (bs : List UInt8) (n m d : Nat) (hmd : m < d) (hd : d < n)
    (hmark : markAt bs m) (hsig : sigAt bs d)
    (hnosig : ∀ j, j < n → j ≠ d → ¬ sigAt bs j)
    (hnomark : ∀ j, m < j → j < n → ¬ markAt bs j) :
    firstFrom bs n 0 0 = none ∧ ctrAfter bs n 0 0 = 0 := by
  have hn : n = m + (1 + ((d - m - 1) + (1 + (n - d - 1)))) := by omega
  -- [0, m): no signature
  have s1 := seg_nosig bs m 0 0 (fun j _ hj => hnosig j (by omega) (by omega))
  -- offset m: the marker arms the counter
  have hm_nosig : ¬ sigAt bs m := hnosig m (by omega) (by omega)
  have c_m : ∀ c, stepCtr bs m c = 1 := by intro c; simp [stepCtr, hmark]
  -- (m, d): clean
  have s3 := seg_clean bs (d - m - 1) (m + 1) 1
    (fun j hj hj' => ⟨hnosig j (by omega) (by omega), hnomark j (by omega) (by omega)⟩)
  -- offset d: the decoy
  have c_d : stepCtr bs d 1 = 0 := by simp [stepCtr, hnomark d hmd hd, hsig]
  -- (d, n): clean
  have s5 := seg_clean bs (n - d - 1) (d + 1) 0
    (fun j hj hj' => ⟨hnosig j (by omega) (by omega), hnomark j (by omega) (by omega)⟩)
  have e1 : m + 1 + (d - m - 1) = d := by omega
  constructor
  · rw [hn, firstFrom_add, s1]
    simp only [Nat.zero_add]
    rw [firstFrom_step _ _ _ _ (by simp [hm_nosig]), c_m, firstFrom_add, s3.1]
    simp only [s3.2, e1]
    rw [firstFrom_step _ _ _ _ (by simp), c_d]
    exact s5.1
  · rw [hn, ctrAfter_add]
    simp only [Nat.zero_add]
    rw [ctrAfter_step, c_m, ctrAfter_add, s3.2, e1, ctrAfter_step, c_d]
    exact s5.2

/-- **Prefix transparency, marker + decoy form.** `P` (e.g. `stub ++ marker ++ stub2`) holds an
SFX marker at `m`, exactly one signature — at `d`, after the marker — and no further marker
behind `m` (all judged on `P ++ A`).  Then the decoy at `d` is skipped and the scan answers as
it does on `A`.  (Markers before `m` are allowed: the counter is *set* to 1, not incremented.) -/
theorem firstHeader_decoy (P A : List UInt8) (m d : Nat) (hmd : m < d) (hd : d < P.length)
    (hmark : markAt (P ++ A) m) (hsig : sigAt (P ++ A) d)
    (hnosig : ∀ j, j < P.length → j ≠ d → ¬ sigAt (P ++ A) j)
    (hnomark : ∀ j, m < j → j < P.length → ¬ markAt (P ++ A) j) :
    firstHeader (P ++ A) = (firstHeaderLim (scanLimit - P.length) A).map (· + P.length) := by
  have := decoy_segment (P ++ A) P.length m d hmd hd hmark hsig hnosig hnomark
  exact firstHeader_append P A this.1 this.2

theorem firstHeader_decoy_some (P A : List UInt8) (m d i : Nat) (hmd : m < d) (hd : d < P.length)
    (hmark : markAt (P ++ A) m) (hsig : sigAt (P ++ A) d)
    (hnosig : ∀ j, j < P.length → j ≠ d → ¬ sigAt (P ++ A) j)
    (hnomark : ∀ j, m < j → j < P.length → ¬ markAt (P ++ A) j)
    (hA : firstHeader A = some i) (hlim : P.length + i < Gen.maxSfxHeaderLen + 8) :
    firstHeader (P ++ A) = some (i + P.length) := by
  have : scanLimit = Gen.maxSfxHeaderLen + 8 := rfl
  rw [firstHeader_decoy P A m d hmd hd hmark hsig hnosig hnomark,
      firstHeaderLim_of_firstHeader hA (by omega)]; rfl


/-! ## 8. the four kinds (task part 4, C16) -/

theorem skip_pos (s : St) (n : Nat) (h : (skip s n).1 = true) : (skip s n).2.pos = s.pos + n := by
  unfold skip at *
  cases hk : s.kind <;> simp only [hk] at h ⊢ <;> (try split at h) <;> simp_all

theorem skip_frame (s : St) (n : Nat) :
    (skip s n).2.data = s.data ∧ (skip s n).2.kind = s.kind ∧ (skip s n).2.phase = s.phase ∧
    (skip s n).2.leadin = s.leadin := by
  unfold skip
  cases hk : s.kind <;> simp only [] <;> (try split) <;> simp [hk]

theorem skip_seekable (s : St) (n : Nat) (h : s.kind = .seekable) : (skip s n).1 = true := by
  unfold skip; simp [h]

theorem skip_other (s : St) (n : Nat) (h : s.kind ≠ .seekable) :
    (skip s n).1 = true ↔ n ≤ s.data.size - s.pos := by
  unfold skip
  cases hk : s.kind <;> simp only [] <;> (try split) <;> simp_all


/-- two stream states that agree on everything a reader can observe; `kind` and the step
counters `reads` / `moved` may differ -/
def SEq (s t : St) : Prop :=
  s.data = t.data ∧ s.pos = t.pos ∧ s.phase = t.phase ∧ s.leadin = t.leadin

theorem SEq.refl (s : St) : SEq s s := ⟨rfl, rfl, rfl, rfl⟩

theorem SEq.doRead_fst {s t : St} (h : SEq s t) (n : Nat) : (doRead s n).1 = (doRead t n).1 := by
  obtain ⟨h1, h2, _, _⟩ := h
  simp [doRead, h1, h2]

theorem SEq.window {s t : St} (h : SEq s t) : window s = window t := by
  unfold Stream.window
  rw [h.doRead_fst, h.2.2.2]

theorem SEq.afterRound {s t : St} (h : SEq s t) (j : Nat) : SEq (afterRound s j) (afterRound t j) := by
  refine ⟨h.1, ?_, h.2.2.1, ?_⟩
  · rw [afterRound_pos, afterRound_pos, h.1, h.2.1, h.2.2.2]
  · rw [afterRound_leadin, afterRound_leadin, h.window]

theorem SEq.rest {s t : St} (h : SEq s t) : rest s = rest t := by
  unfold Stream.rest; rw [h.1, h.2.1, h.2.2.2]

/-- `skip_sfx` does not look at the kind of the source -/
theorem skipSfx_kind_indep : ∀ (fuel fp sf : Nat) (s t : St), SEq s t → s.leadin.length ≤ 24 →
    ∃ b s' t', skipSfx fuel fp sf s = .ok (b, s') ∧ skipSfx fuel fp sf t = .ok (b, t') ∧ SEq s' t' := by
  intro fuel
  induction fuel with
  | zero => intro fp sf s t h _; exact ⟨false, s, t, rfl, rfl, h⟩
  | succ fuel ih =>
    intro fp sf s t h hl
    have hl' : t.leadin.length ≤ 24 := by rw [← h.2.2.2]; exact hl
    by_cases hfp : fp < Gen.maxSfxHeaderLen
    · rw [skipSfx_succ fuel fp sf s hl hfp, skipSfx_succ fuel fp sf t hl' hfp]
      have e1 : (doRead t (24 - t.leadin.length)).1 = (doRead s (24 - s.leadin.length)).1 := by
        rw [← h.2.2.2, h.doRead_fst]
      rw [e1, ← h.window]
      have hw := window_length_le s hl
      split
      · refine ⟨false, _, _, rfl, rfl, ?_⟩
        have := h.afterRound 0
        exact ⟨this.1, this.2.1, h.2.2.1, h.2.2.2⟩
      · split
        · exact ⟨true, _, _, rfl, rfl, h.afterRound _⟩
        · exact ih _ _ _ _ (h.afterRound _) (by simp; omega)
    · rw [skipSfx_ge _ _ _ _ hfp, skipSfx_ge _ _ _ _ hfp]; exact ⟨false, s, t, rfl, rfl, h⟩

/-- `start` does not look at the kind of the source -/
theorem start_kind_indep (s t : St) (h : SEq s t) (hl : s.leadin.length ≤ 24) :
    ∃ s' t', start s = .ok s' ∧ start t = .ok t' ∧ SEq s' t' ∧ s'.leadin.length ≤ 24 := by
  obtain ⟨s1, e1, hl1, _⟩ := start_ok s hl
  unfold start at e1 ⊢
  rw [← h.2.2.1, ← h.1, ← h.2.1]
  by_cases hp : s.phase = .init
  · obtain ⟨b, s', t', e, e', h'⟩ := skipSfx_kind_indep (s.data.size - s.pos + 1) 0 0 s t h hl
    simp only [hp, phase_beq, decide_true, if_true, e, e', Res.ok_bind] at e1 ⊢
    cases e1
    exact ⟨_, _, rfl, rfl, ⟨h'.1, h'.2.1, rfl, h'.2.2.2⟩, hl1⟩
  · simp only [phase_beq, hp, decide_false, Bool.false_eq_true, if_false]
    exact ⟨s, t, rfl, rfl, h, hl⟩


open LhasaV.Reader

/-- outcomes related by `R`: both return (related values), both fail, or both fault at the same site -/
def ResRel {α β : Type} (R : α → β → Prop) : Res α → Res β → Prop
  | .ok a, .ok b => R a b
  | .fail, .fail => True
  | .fault w, .fault w' => w = w'
  | _, _ => False

/-- Observational equality of two basic-reader states whose sources may be of different kinds
(and whose step counters may differ): same data, same current header object, same END flag,
and — unless END has been reached — same position, lead-in, phase and remaining count. -/
def ObsEq (a b : Basic) : Prop :=
  a.stream.data = b.stream.data ∧ a.curr = b.curr ∧ a.eof = b.eof ∧
  (a.eof = true ∨
    (a.stream.pos = b.stream.pos ∧ a.stream.leadin = b.stream.leadin ∧
     a.stream.phase = b.stream.phase ∧ a.remaining = b.remaining))

/-- the reader invariant used below: the lead-in fits its buffer, and while a member is current
fewer than 22 bytes of lead-in are left (in lhasa: none, every header is ≥ 24 bytes) -/
def WF (a : Basic) : Prop :=
  a.stream.leadin.length ≤ 24 ∧ (a.curr.isSome → a.stream.leadin.length < 22)

theorem header_read_short (mk : Nat → Nat) (inp : Bytes) (h : inp.length < 22) :
    Header.read mk inp = .fail := by
  unfold Header.read Header.extend
  simp [Gen.commonHeaderLen, Gen.level3MaxHeaderLen, h]

/-- the part of `basicNext` after the skip of the current member -/
def nextTail (mk : Nat → Nat) (b : Basic) (led : Ledger) : Res (Basic × Ledger) :=
  if b.eof then .ok (b, led) else
  (Stream.start b.stream) >>= fun st =>
  if st.phase == .fail then .ok ({ b with stream := st, eof := true }, led) else
  match Header.read mk (Stream.rest st) with
  | .fault w => .fault w
  | .fail => .ok ({ b with stream := st, eof := true }, led)
  | .ok (h, rest) =>
    let used := (Stream.rest st).length - rest.length
    let st := Stream.advance st used
    let opt := fun (o : Option Bytes) => if o.isSome then 1 else 0
    let nblocks := 1 + opt h.path + opt h.filename + opt h.symlinkTarget + opt h.unixUsername + opt h.unixGroup
    let (id, led) := led.alloc nblocks
    .ok ({ b with stream := st, curr := some ⟨id, h⟩, remaining := h.compressedLength, dataStart := st.pos }, led)

/-- the first part of `basicNext`: drop the current member, skipping what is left of it -/
def afterSkip (b : Basic) (led : Ledger) : Basic × Ledger :=
  match b.curr with
  | some c =>
    let sk := Stream.skip b.stream b.remaining
    ({ b with curr := none, stream := sk.2, eof := b.eof || !sk.1 }, led.unref c.id)
  | none => (b, led)

theorem basicNext_eq (mk : Nat → Nat) (b : Basic) (led : Ledger) :
    basicNext mk b led = nextTail mk (afterSkip b led).1 (afterSkip b led).2 := by
  unfold basicNext afterSkip nextTail
  cases b.curr <;> rfl


theorem SEq.advance {s t : St} (h : SEq s t) (k : Nat) : SEq (advance s k) (advance t k) := by
  obtain ⟨h1, h2, h3, h4⟩ := h
  refine ⟨h1, ?_, h3, ?_⟩ <;> simp [Stream.advance, h1, h2, h4]

theorem nextTail_eof (mk : Nat → Nat) (b : Basic) (led : Ledger) (h : b.eof = true) :
    nextTail mk b led = .ok (b, led) := by
  unfold nextTail; simp [h]

/-- the continuation of `basicNext` on observationally equal states -/
theorem nextTail_rel (mk : Nat → Nat) (a b : Basic) (led : Ledger) (h : ObsEq a b)
    (hl : a.stream.leadin.length ≤ 24) :
    ResRel (fun r r' => ObsEq r.1 r'.1 ∧ r.2 = r'.2) (nextTail mk a led) (nextTail mk b led) := by
  obtain ⟨hd, hc, he, hr⟩ := h
  by_cases hea : a.eof = true
  · rw [nextTail_eof mk a led hea, nextTail_eof mk b led (he ▸ hea)]
    exact ⟨⟨hd, hc, he, Or.inl hea⟩, rfl⟩
  · have heb : ¬ b.eof = true := he ▸ hea
    obtain ⟨hp, hli, hph, hrem⟩ := hr.resolve_left hea
    obtain ⟨s', t', e1, e2, hs, hl'⟩ := start_kind_indep a.stream b.stream ⟨hd, hp, hph, hli⟩ hl
    unfold nextTail
    simp only [hea, heb, Bool.false_eq_true, if_false, e1, e2, Res.ok_bind]
    rw [← hs.rest, ← hs.2.2.1]
    split
    · exact ⟨⟨hs.1, hc, rfl, Or.inl rfl⟩, rfl⟩
    · cases hH : Header.read mk (rest s') with
      | fault w => exact rfl
      | fail => exact ⟨⟨hs.1, hc, rfl, Or.inl rfl⟩, rfl⟩
      | ok r =>
        obtain ⟨hh, rr⟩ := r
        have ha := hs.advance ((rest s').length - rr.length)
        exact ⟨⟨ha.1, rfl, rfl, Or.inr ⟨ha.2.1, ha.2.2.2, ha.2.2.1, rfl⟩⟩, rfl⟩

/-- the continuation of `basicNext` when the source position is at or past the end:
end of archive, whatever the phase -/
theorem nextTail_past_end (mk : Nat → Nat) (a : Basic) (led : Ledger) (he : a.eof = false)
    (hpos : a.stream.data.size ≤ a.stream.pos) (hl : a.stream.leadin.length < 22) :
    ∃ st, nextTail mk a led = .ok ({ a with stream := st, eof := true }, led) ∧
      st.data = a.stream.data := by
  obtain ⟨s', e, hl', hd, _, hsame, hni⟩ := start_ok a.stream (by omega)
  unfold nextTail
  simp only [he, Bool.false_eq_true, if_false, e, Res.ok_bind]
  by_cases hf : s'.phase = .fail
  · simp only [hf, phase_beq, decide_true, if_true]
    exact ⟨s', rfl, hd⟩
  · simp only [hf, phase_beq, decide_false, Bool.false_eq_true, if_false]
    -- the phase was `reading` already (a fresh scan at the end of the data fails)
    have hnot_init : a.stream.phase ≠ .init := by
      intro hi
      unfold start at e
      simp only [hi, phase_beq, decide_true, if_true] at e
      have hsrc : src a.stream = [] := List.eq_nil_of_length_eq_zero (by rw [src_length]; omega)
      have hM : (0 : Nat) < Gen.maxSfxHeaderLen := by decide
      rw [show a.stream.data.size - a.stream.pos + 1 = 0 + 1 by omega,
          skipSfx_succ 0 0 0 a.stream (by omega) hM, doRead_fst, hsrc] at e
      simp only [List.take_nil, List.isEmpty_nil, if_true, Res.ok_bind] at e
      cases e
      exact hf rfl
    have := hsame hnot_init
    subst this
    have hr : (rest a.stream).length < 22 := by
      rw [rest_eq, List.length_append, src_length]; omega
    rw [header_read_short mk _ hr]
    exact ⟨_, rfl, rfl⟩


theorem ResRel.ok_left {α β : Type} {R : α → β → Prop} {a : α} {y : Res β}
    (h : ∃ b, y = .ok b ∧ R a b) : ResRel R (.ok a) y := by
  obtain ⟨b, rfl, hr⟩ := h; exact hr

/-- **C16: `basicNext` does not depend on the kind of source.**  From observationally equal
states (sources of any two kinds) `lha_basic_reader_next_file` either faults in both (at the same
site, in the header parser) or returns in both with observationally equal states — in particular
the same current header object `curr` (same `Hdr` value and identity; `none` = END in both), the
same END flag — and identical ledgers. -/
theorem basicNext_kind_indep (mk : Nat → Nat) (a b : Basic) (led : Ledger)
    (h : ObsEq a b) (wf : WF a) :
    ResRel (fun r r' => ObsEq r.1 r'.1 ∧ r.2 = r'.2) (basicNext mk a led) (basicNext mk b led) := by
  rw [basicNext_eq, basicNext_eq]
  obtain ⟨hd, hc, he, hr⟩ := h
  cases hca : a.curr with
  | none =>
    have hcb : b.curr = none := by rw [← hc, hca]
    simp only [afterSkip, hca, hcb]
    exact nextTail_rel mk a b led ⟨hd, hc, he, hr⟩ wf.1
  | some c =>
    have hcb : b.curr = some c := by rw [← hc, hca]
    simp only [afterSkip, hca, hcb]
    have fa := skip_frame a.stream a.remaining
    have fb := skip_frame b.stream b.remaining
    by_cases hea : a.eof = true
    · have heb : b.eof = true := he ▸ hea
      rw [nextTail_eof _ _ _ (by simp [hea]), nextTail_eof _ _ _ (by simp [heb])]
      exact ⟨⟨by simp [fa.1, fb.1, hd], rfl, by simp [hea, heb], Or.inl (by simp [hea])⟩, rfl⟩
    · have hea' : a.eof = false := by simpa using hea
      have heb : b.eof = false := he ▸ hea'
      obtain ⟨hp, hli, hph, hrem⟩ := hr.resolve_left hea
      have hlt : a.stream.leadin.length < 22 := wf.2 (by simp [hca])
      cases hsa : (skip a.stream a.remaining).1 <;> cases hsb : (skip b.stream b.remaining).1
      · -- both skips fail: END in both
        rw [nextTail_eof _ _ _ (by simp [hsa]), nextTail_eof _ _ _ (by simp [hsb])]
        exact ⟨⟨by simp [fa.1, fb.1, hd], rfl, by simp [hsa, hsb], Or.inl (by simp [hsa])⟩, rfl⟩
      · -- `a` fails the skip, `b` (seekable) seeks past the end and then finds no header
        have hkb : b.stream.kind = .seekable := by
          apply Classical.byContradiction; intro hk
          have h1 := (skip_other b.stream b.remaining hk).mp hsb
          have h2 : ¬ a.remaining ≤ a.stream.data.size - a.stream.pos := by
            intro h2
            by_cases hka : a.stream.kind = .seekable
            · rw [skip_seekable _ _ hka] at hsa; cases hsa
            · rw [(skip_other a.stream a.remaining hka).mpr h2] at hsa; cases hsa
          rw [hd, hp, hrem] at h2; exact h2 h1
        have hnot : ¬ a.remaining ≤ a.stream.data.size - a.stream.pos := by
          intro h2
          by_cases hka : a.stream.kind = .seekable
          · rw [skip_seekable _ _ hka] at hsa; cases hsa
          · rw [(skip_other a.stream a.remaining hka).mpr h2] at hsa; cases hsa
        have hposb := skip_pos b.stream b.remaining hsb
        obtain ⟨st, e, hst⟩ := nextTail_past_end mk
          { b with curr := none, stream := (skip b.stream b.remaining).2, eof := b.eof || !true }
          (led.unref c.id) (by simp [heb]) (by simp [hposb, fb.1]; rw [← hd, ← hp, ← hrem]; omega)
          (by simp [fb.2.2.2, ← hli]; exact hlt)
        rw [nextTail_eof _ _ _ (by simp), e]
        exact ⟨⟨by simp [fa.1, hst, fb.1, hd], rfl, by simp, Or.inl (by simp)⟩, rfl⟩
      · -- `a` (seekable) seeks past the end, `b` fails the skip
        have hnot : ¬ b.remaining ≤ b.stream.data.size - b.stream.pos := by
          intro h2
          by_cases hkb : b.stream.kind = .seekable
          · rw [skip_seekable _ _ hkb] at hsb; cases hsb
          · rw [(skip_other b.stream b.remaining hkb).mpr h2] at hsb; cases hsb
        have hposa := skip_pos a.stream a.remaining hsa
        obtain ⟨st, e, hst⟩ := nextTail_past_end mk
          { a with curr := none, stream := (skip a.stream a.remaining).2, eof := a.eof || !true }
          (led.unref c.id) (by simp [hea']) (by simp [hposa, fa.1]; rw [hd, hp, hrem]; omega)
          (by simp [fa.2.2.2]; exact hlt)
        rw [nextTail_eof _ { b with curr := none, stream := (skip b.stream b.remaining).2, eof := b.eof || !false } _ (by simp), e]
        exact ⟨⟨by simp [fb.1, hst, fa.1, hd], rfl, by simp, Or.inl (by simp)⟩, rfl⟩
      · -- both skips succeed: same position
        have hposa := skip_pos a.stream a.remaining hsa
        have hposb := skip_pos b.stream b.remaining hsb
        exact nextTail_rel mk _ _ _
          ⟨by simp [fa.1, fb.1, hd], rfl, by simp [hea', heb],
            Or.inr ⟨by show (skip a.stream a.remaining).2.pos = (skip b.stream b.remaining).2.pos
                       rw [hposa, hposb, hp, hrem], by simp [fa.2.2.2, fb.2.2.2, hli],
                    by simp [fa.2.2.1, fb.2.2.1, hph], hrem⟩⟩
          (by simp [fa.2.2.2]; exact wf.1)


/-! ## 9. step bounds (task part 5, C13) -/

theorem window_length (s : St) :
    (window s).length = s.leadin.length + min (24 - s.leadin.length) (s.data.size - s.pos) := by
  simp [window, doRead_fst, src_length]

/-- bounds for `skip_sfx` from any state whose lead-in fits the buffer: one source read per
round and at most `fuel` rounds; `moved` grows exactly as `pos` does; `pos` never passes the end
of the data (unless it already had); and the scan never pulls more than
`MAX_SFX_HEADER_LEN + 23` bytes through the window. -/
theorem skipSfx_bounds : ∀ (fuel fp sf : Nat) (s : St), s.leadin.length ≤ 24 →
    ∀ b s', skipSfx fuel fp sf s = .ok (b, s') →
      s.reads ≤ s'.reads ∧ s'.reads ≤ s.reads + fuel ∧ s'.moved + s.pos = s.moved + s'.pos ∧ s.pos ≤ s'.pos ∧
      s'.pos ≤ max s.pos s.data.size ∧
      s'.moved + fp + s.leadin.length ≤ s.moved + max (fp + s.leadin.length) (Gen.maxSfxHeaderLen + 23) := by
  have hM : Gen.maxSfxHeaderLen = 262144 := rfl
  intro fuel
  induction fuel with
  | zero =>
    intro fp sf s _ b s' h
    simp only [skipSfx, Res.ok.injEq, Prod.mk.injEq] at h
    obtain ⟨_, rfl⟩ := h
    exact ⟨by omega, by omega, by omega, by omega, by omega, by omega⟩
  | succ fuel ih =>
    intro fp sf s hl b s' h
    by_cases hfp : fp < Gen.maxSfxHeaderLen
    · rw [skipSfx_succ fuel fp sf s hl hfp] at h
      have hwl := window_length s
      have hw := window_length_le s hl
      have hg : (doRead s (24 - s.leadin.length)).2.reads = s.reads + 1 ∧
          (doRead s (24 - s.leadin.length)).2.moved = s.moved + min (24 - s.leadin.length) (s.data.size - s.pos) ∧
          (doRead s (24 - s.leadin.length)).2.pos = s.pos + min (24 - s.leadin.length) (s.data.size - s.pos) :=
        ⟨rfl, rfl, rfl⟩
      split at h
      · simp only [Res.ok.injEq, Prod.mk.injEq] at h
        obtain ⟨_, rfl⟩ := h
        obtain ⟨h1, h2, h3⟩ := hg
        rw [h1, h2, h3]
        exact ⟨by omega, by omega, by omega, by omega, by omega, by omega⟩
      · split at h
        · simp only [Res.ok.injEq, Prod.mk.injEq] at h
          obtain ⟨_, rfl⟩ := h
          rw [afterRound_reads, afterRound_moved, afterRound_pos]
          exact ⟨by omega, by omega, by omega, by omega, by omega, by omega⟩
        · have := ih _ _ _ (by simp; omega) b s' h
          rw [afterRound_reads, afterRound_moved, afterRound_pos, afterRound_data, afterRound_leadin,
              List.length_drop] at this
          obtain ⟨h0, h1, h2, h3, h4, h5⟩ := this
          exact ⟨by omega, by omega, by omega, by omega, by omega, by omega⟩
    · rw [skipSfx_ge _ _ _ _ hfp] at h
      simp only [Res.ok.injEq, Prod.mk.injEq] at h
      obtain ⟨_, rfl⟩ := h
      exact ⟨by omega, by omega, by omega, by omega, by omega, by omega⟩

/-- **Step bounds for `start`.**  At most one source read per byte present plus one; the bytes
moved are bounded both by the bytes present and by `MAX_SFX_HEADER_LEN + 23`. -/
theorem start_bounds (s s' : St) (hl : s.leadin.length ≤ 24) (h : start s = .ok s') :
    s.reads ≤ s'.reads ∧ s'.reads - s.reads ≤ (s.data.size - s.pos) + 1 ∧
    s.moved ≤ s'.moved ∧
    s'.moved - s.moved ≤ min (s.data.size - s.pos) (Gen.maxSfxHeaderLen + 23) ∧
    s'.moved + s.pos = s.moved + s'.pos := by
  unfold start at h
  by_cases hp : s.phase = .init
  · obtain ⟨b, s1, e, _⟩ := skipSfx_ok (s.data.size - s.pos + 1) 0 0 s hl
    simp only [hp, phase_beq, decide_true, if_true, e, Res.ok_bind, Res.ok.injEq] at h
    obtain ⟨h0, h1, h2, h3, h4, h5⟩ := skipSfx_bounds _ _ _ s hl b s1 e
    subst h
    simp only []
    exact ⟨by omega, by omega, by omega, by omega, by omega⟩
  · simp only [phase_beq, hp, decide_false, Bool.false_eq_true, if_false, Res.ok.injEq] at h
    subst h
    exact ⟨by omega, by omega, by omega, by omega, by omega⟩


/-- **Step bounds for `read`**, after the start-of-stream scan (`s1` is the state `start`
leaves; `s1 = s` unless the phase was `init`): one more source read at most, at most `n` more
bytes moved, and a successful read delivers exactly `n` bytes. -/
theorem read_bounds (s s' : St) (n : Nat) (o : Option (List UInt8)) (hl : s.leadin.length ≤ 24)
    (h : read s n = .ok (o, s')) :
    ∃ s1, start s = .ok s1 ∧ (s.phase ≠ .init → s1 = s) ∧
      s1.reads ≤ s'.reads ∧ s'.reads ≤ s1.reads + 1 ∧
      s1.moved ≤ s'.moved ∧ s'.moved ≤ s1.moved + n ∧
      (∀ l, o = some l → l.length = n) := by
  obtain ⟨s1, e, hl1, _, _, hsame, _⟩ := start_ok s hl
  refine ⟨s1, e, hsame, ?_⟩
  unfold read at h
  simp only [e, Res.ok_bind] at h
  split at h
  · simp only [Res.ok.injEq, Prod.mk.injEq] at h
    obtain ⟨rfl, rfl⟩ := h
    exact ⟨by omega, by omega, by omega, by omega, by intro l hl; cases hl⟩
  · split at h
    · split at h
      · rename_i hk
        simp only [Res.ok.injEq, Prod.mk.injEq] at h
        obtain ⟨rfl, rfl⟩ := h
        refine ⟨by simp [doRead], by simp [doRead], by simp [doRead], by simp [doRead]; omega, ?_⟩
        intro l hl; cases hl
        simp only [List.length_append, List.length_take]
        omega
      · simp only [Res.ok.injEq, Prod.mk.injEq] at h
        obtain ⟨rfl, rfl⟩ := h
        exact ⟨by simp [doRead], by simp [doRead], by simp [doRead], by simp [doRead]; omega,
          by intro l hl; cases hl⟩
    · rename_i hk
      simp only [Res.ok.injEq, Prod.mk.injEq] at h
      obtain ⟨rfl, rfl⟩ := h
      refine ⟨by simp, by simp, by simp, by simp, ?_⟩
      intro l hl; cases hl
      simp only [List.length_take]; omega

/-- `read` outside the `init` phase: `moved` grows by at most `n`, one source read at most -/
theorem read_bounds_started (s s' : St) (n : Nat) (o : Option (List UInt8))
    (hl : s.leadin.length ≤ 24) (hp : s.phase ≠ .init) (h : read s n = .ok (o, s')) :
    s.reads ≤ s'.reads ∧ s'.reads - s.reads ≤ 1 ∧ s.moved ≤ s'.moved ∧ s'.moved - s.moved ≤ n := by
  obtain ⟨s1, _, hs, h1, h2, h3, h4, _⟩ := read_bounds s s' n o hl h
  have := hs hp; subst this
  exact ⟨h1, by omega, h3, by omega⟩

/-- `read` in any phase: the start-of-stream scan's bound is added -/
theorem read_bounds_total (s s' : St) (n : Nat) (o : Option (List UInt8))
    (hl : s.leadin.length ≤ 24) (h : read s n = .ok (o, s')) :
    s'.reads - s.reads ≤ (s.data.size - s.pos) + 2 ∧
    s'.moved - s.moved ≤ n + min (s.data.size - s.pos) (Gen.maxSfxHeaderLen + 23) := by
  obtain ⟨s1, e, _, h1, h2, h3, h4, _⟩ := read_bounds s s' n o hl h
  obtain ⟨b1, b2, b3, b4, _⟩ := start_bounds s s1 hl e
  exact ⟨by omega, by omega⟩

/-- **Step bounds for `skip`**, every kind: `moved` grows by at most `min n (bytes left)`,
`reads` by at most `n / 32 + 1` (both by 0 for the seeking kinds) -/
theorem skip_bounds (s : St) (n : Nat) :
    s.moved ≤ (skip s n).2.moved ∧ (skip s n).2.moved - s.moved ≤ min n (s.data.size - s.pos) ∧
    s.reads ≤ (skip s n).2.reads ∧ (skip s n).2.reads - s.reads ≤ n / 32 + 1 := by
  unfold skip
  cases hk : s.kind <;> simp only [] <;> (try split) <;> (try simp only []) <;>
    exact ⟨by omega, by omega, by omega, by omega⟩

theorem skip_bounds_seeking (s : St) (n : Nat) (h : s.kind = .seekable ∨ s.kind = .cbSkip) :
    (skip s n).2.moved = s.moved ∧ (skip s n).2.reads = s.reads := by
  unfold skip
  rcases h with h | h <;> simp only [h] <;> (try split) <;> simp


theorem doRead_isEmpty (s : St) (n : Nat) :
    (doRead s n).1.isEmpty = true ↔ n = 0 ∨ s.data.size ≤ s.pos := by
  rw [doRead_fst, List.isEmpty_iff, List.take_eq_nil_iff]
  constructor
  · rintro (h | h)
    · exact Or.inl h
    · right; have := src_length s; rw [h] at this; simp at this; omega
  · rintro (h | h)
    · exact Or.inl h
    · right; exact List.eq_nil_of_length_eq_zero (by rw [src_length]; omega)

/-- rounds after the first: the lead-in holds 12 bytes (or the source is dry), every round
pulls 12 more bytes, so there are at most `⌈left / 12⌉ + 1` of them -/
theorem skipSfx_reads_regular : ∀ (fuel fp sf : Nat) (s : St),
    (s.leadin.length = 12 ∨ (s.leadin.length ≤ 24 ∧ s.data.size ≤ s.pos)) →
    ∀ b s', skipSfx fuel fp sf s = .ok (b, s') →
      s'.reads ≤ s.reads + (s.data.size - s.pos + 11) / 12 + 1 := by
  intro fuel
  induction fuel with
  | zero =>
    intro fp sf s _ b s' h
    simp only [skipSfx, Res.ok.injEq, Prod.mk.injEq] at h
    obtain ⟨_, rfl⟩ := h; omega
  | succ fuel ih =>
    intro fp sf s hI b s' h
    have hl : s.leadin.length ≤ 24 := by omega
    by_cases hfp : fp < Gen.maxSfxHeaderLen
    · rw [skipSfx_succ fuel fp sf s hl hfp] at h
      have hwl := window_length s
      by_cases hemp : (doRead s (24 - s.leadin.length)).1.isEmpty = true
      · rw [if_pos hemp] at h
        simp only [Res.ok.injEq, Prod.mk.injEq] at h
        obtain ⟨_, rfl⟩ := h
        show s.reads + 1 ≤ _; omega
      · rw [if_neg hemp] at h
        have hne := (not_congr (doRead_isEmpty s _)).mp hemp
        split at h
        · simp only [Res.ok.injEq, Prod.mk.injEq] at h
          obtain ⟨_, rfl⟩ := h
          rw [afterRound_reads]; omega
        · have := ih _ _ (afterRound s ((window s).length - 12))
            (by left; rw [afterRound_leadin, List.length_drop]; omega) b s' h
          rw [afterRound_reads, afterRound_pos, afterRound_data] at this
          omega
    · rw [skipSfx_ge _ _ _ _ hfp] at h
      simp only [Res.ok.injEq, Prod.mk.injEq] at h
      obtain ⟨_, rfl⟩ := h; omega

/-- from any state whose lead-in fits: at most `⌈left / 12⌉ + 2` source reads -/
theorem skipSfx_reads : ∀ (fuel fp sf : Nat) (s : St), s.leadin.length ≤ 24 →
    ∀ b s', skipSfx fuel fp sf s = .ok (b, s') →
      s'.reads ≤ s.reads + (s.data.size - s.pos + 11) / 12 + 2 := by
  intro fuel fp sf s hl b s' h
  cases fuel with
  | zero =>
    simp only [skipSfx, Res.ok.injEq, Prod.mk.injEq] at h
    obtain ⟨_, rfl⟩ := h; omega
  | succ fuel =>
    by_cases hfp : fp < Gen.maxSfxHeaderLen
    · rw [skipSfx_succ fuel fp sf s hl hfp] at h
      have hwl := window_length s
      split at h
      · simp only [Res.ok.injEq, Prod.mk.injEq] at h
        obtain ⟨_, rfl⟩ := h
        show s.reads + 1 ≤ _; omega
      · split at h
        · simp only [Res.ok.injEq, Prod.mk.injEq] at h
          obtain ⟨_, rfl⟩ := h
          rw [afterRound_reads]; omega
        · have := skipSfx_reads_regular _ _ _ (afterRound s ((window s).length - 12))
            (by rw [afterRound_leadin, List.length_drop, afterRound_pos, afterRound_data]; omega) b s' h
          rw [afterRound_reads, afterRound_pos, afterRound_data] at this
          omega
    · rw [skipSfx_ge _ _ _ _ hfp] at h
      simp only [Res.ok.injEq, Prod.mk.injEq] at h
      obtain ⟨_, rfl⟩ := h; omega

/-- **Sharper step bound for `start`**: one source read per 12 bytes present, plus two -/
theorem start_reads (s s' : St) (hl : s.leadin.length ≤ 24) (h : start s = .ok s') :
    s'.reads - s.reads ≤ (s.data.size - s.pos + 11) / 12 + 2 := by
  unfold start at h
  by_cases hp : s.phase = .init
  · obtain ⟨b, s1, e, _⟩ := skipSfx_ok (s.data.size - s.pos + 1) 0 0 s hl
    simp only [hp, phase_beq, decide_true, if_true, e, Res.ok_bind, Res.ok.injEq] at h
    have := skipSfx_reads _ _ _ s hl b s1 e
    subst h
    simp only []
    omega
  · simp only [phase_beq, hp, decide_false, Bool.false_eq_true, if_false, Res.ok.injEq] at h
    subst h; omega


/-! ## 10. the reader invariant `WF` is kept: a parsed header consumed ≥ 22 bytes -/
open LhasaV.Header

/-- a header-parsing step leaves at most `n` bytes of input -/
def Keeps (n : Nat) (x : Res (Hdr × Bytes)) : Prop := ∀ a, x = .ok a → a.2.length ≤ n

theorem keeps_fail {n} : Keeps n .fail := by intro a h; cases h
theorem keeps_fault {n w} : Keeps n (.fault w) := by intro a h; cases h
theorem keeps_ok {n} {a : Hdr × Bytes} (h : a.2.length ≤ n) : Keeps n (.ok a) := by
  intro b e; cases e; exact h
theorem keeps_pure {n} {a : Hdr × Bytes} (h : a.2.length ≤ n) : Keeps n (pure a) := keeps_ok h

theorem keeps_bind {α n} {x : Res α} {f : α → Res (Hdr × Bytes)} (hf : ∀ a, Keeps n (f a)) :
    Keeps n (x >>= f) := by
  intro b e
  obtain ⟨a, _, e2⟩ := Res.bind_eq_ok.mp e
  exact hf a b e2

theorem keeps_bind_of {n} {x : Res (Hdr × Bytes)} {f : Hdr × Bytes → Res (Hdr × Bytes)}
    (hx : Keeps n x) (hf : ∀ a, a.2.length ≤ n → Keeps n (f a)) : Keeps n (x >>= f) := by
  intro b e
  obtain ⟨a, e1, e2⟩ := Res.bind_eq_ok.mp e
  exact hf a (hx a e1) b e2

theorem keeps_extend {n} {h : Hdr} {inp : Bytes} {k : Nat} (hi : inp.length ≤ n) :
    Keeps n (extend h inp k) := by
  intro a e
  obtain ⟨h', r⟩ := a
  obtain ⟨_, _, _, rfl⟩ := extend_eq_ok.mp e
  simp; omega

theorem keeps_common {inp : Bytes} : Keeps (inp.length - 22) (extend {} inp Gen.commonHeaderLen) := by
  intro a e
  obtain ⟨h', r⟩ := a
  obtain ⟨_, _, _, rfl⟩ := extend_eq_ok.mp e
  simp [Gen.commonHeaderLen]

attribute [irreducible] Keeps

macro "keeps_step" : tactic => `(tactic| first
  | exact keeps_fail
  | exact keeps_fault
  | (apply keeps_ok; first | assumption | exact Nat.le_refl _)
  | (apply keeps_pure; first | assumption | exact Nat.le_refl _)
  | (apply keeps_extend; first | assumption | exact Nat.le_refl _)
  | (apply keeps_bind_of)
  | (apply keeps_bind)
  | intro _
  | split
  | (dsimp only))

theorem decodeLevel2_keeps {n} (h : Hdr) (inp : Bytes) (hi : inp.length ≤ n) :
    Keeps n (decodeLevel2 h inp) := by
  unfold decodeLevel2
  repeat' keeps_step

theorem decodeLevel3_keeps {n} (h : Hdr) (inp : Bytes) (hi : inp.length ≤ n) :
    Keeps n (decodeLevel3 h inp) := by
  unfold decodeLevel3
  repeat' keeps_step

theorem decodeLevel0_keeps {n} (mk : Nat → Nat) (h : Hdr) (inp : Bytes) (hi : inp.length ≤ n) :
    Keeps n (decodeLevel0 mk h inp) := by
  unfold decodeLevel0
  repeat' keeps_step

theorem readL1Ext_keeps {n} (h : Hdr) (inp : Bytes) (hi : inp.length ≤ n) :
    Keeps n (readL1Ext h inp) := by
  fun_induction readL1Ext h inp with
  | case1 => exact keeps_fault
  | case2 h inp hr ih =>
    apply keeps_bind
    intro len
    by_cases hz : len = 0
    · simp only [hz, dite_true]; exact keeps_ok hi
    · simp only [hz, dite_false]
      repeat' keeps_step
      exact ih len ‹_› ‹_› (by simp; omega)

theorem decodeLevel1_keeps {n} (mk : Nat → Nat) (h : Hdr) (inp : Bytes) (hi : inp.length ≤ n) :
    Keeps n (decodeLevel1 mk h inp) := by
  unfold decodeLevel1
  apply keeps_bind_of (decodeLevel0_keeps mk h inp hi)
  intro a ha
  apply keeps_bind_of (readL1Ext_keeps _ _ ha)
  intro b hb
  repeat' keeps_step

theorem header_read_keeps (mk : Nat → Nat) (inp : Bytes) :
    Keeps (inp.length - 22) (Header.read mk inp) := by
  unfold Header.read
  apply keeps_bind_of keeps_common
  intro a ha
  repeat' first
    | (apply decodeLevel0_keeps; assumption)
    | (apply decodeLevel1_keeps; assumption)
    | (apply decodeLevel2_keeps; assumption)
    | (apply decodeLevel3_keeps; assumption)
    | keeps_step

/-- a successfully parsed header consumed at least its 22 common bytes -/
theorem header_read_consumes {mk : Nat → Nat} {inp : Bytes} {h : Hdr} {r : Bytes}
    (e : Header.read mk inp = .ok (h, r)) : r.length + 22 ≤ inp.length := by
  have h22 : ¬ inp.length < 22 := by
    intro hlt; rw [header_read_short mk inp hlt] at e; cases e
  have := header_read_keeps mk inp
  unfold Keeps at this
  have := this _ e
  simp only [] at this
  omega

theorem nextTail_wf (mk : Nat → Nat) (b : Basic) (led : Ledger) (wf : WF b) (hc : b.curr = none)
    (b' : Basic) (led' : Ledger) (e : nextTail mk b led = .ok (b', led')) : WF b' := by
  unfold nextTail at e
  by_cases he : b.eof = true
  · simp only [he, if_true, Res.ok.injEq, Prod.mk.injEq] at e
    obtain ⟨rfl, _⟩ := e; exact wf
  · obtain ⟨st, es, hl, _⟩ := start_ok b.stream wf.1
    simp only [he, Bool.false_eq_true, if_false, es, Res.ok_bind] at e
    split at e
    · simp only [Res.ok.injEq, Prod.mk.injEq] at e
      obtain ⟨rfl, _⟩ := e
      exact ⟨hl, by simp [hc]⟩
    · cases hH : Header.read mk (rest st) with
      | fault w => rw [hH] at e; cases e
      | fail =>
        rw [hH] at e
        simp only [Res.ok.injEq, Prod.mk.injEq] at e
        obtain ⟨rfl, _⟩ := e
        exact ⟨hl, by simp [hc]⟩
      | ok r =>
        obtain ⟨hh, rr⟩ := r
        rw [hH] at e
        simp only [Res.ok.injEq, Prod.mk.injEq] at e
        obtain ⟨rfl, _⟩ := e
        have hcons := header_read_consumes hH
        have hrest : (rest st).length = st.leadin.length + (src st).length := by
          rw [rest_eq, List.length_append]
        have : (advance st ((rest st).length - rr.length)).leadin.length ≤ 2 := by
          simp only [Stream.advance, List.length_drop]; omega
        exact ⟨by show (advance st ((rest st).length - rr.length)).leadin.length ≤ 24; omega,
               fun _ => by show (advance st ((rest st).length - rr.length)).leadin.length < 22; omega⟩

/-- the invariant `WF` is kept by `basicNext` (so it holds along every run from a fresh reader) -/
theorem basicNext_wf (mk : Nat → Nat) (b : Basic) (led : Ledger) (wf : WF b)
    (b' : Basic) (led' : Ledger) (e : basicNext mk b led = .ok (b', led')) : WF b' := by
  rw [basicNext_eq] at e
  refine nextTail_wf mk _ _ ?_ ?_ b' led' e
  · unfold afterSkip
    cases hc : b.curr with
    | none => exact wf
    | some c => exact ⟨by simp [(skip_frame b.stream b.remaining).2.2.2]; exact wf.1, by simp⟩
  · unfold afterSkip
    cases hc : b.curr with
    | none => exact hc
    | some c => rfl

theorem wf_fresh (s : St) (h : s.leadin = []) : WF { stream := s } := by
  refine ⟨by simp [h], by simp⟩


/-! ## 11. corollaries: the task's literal relation, iteration, the partial `read` bound -/

/-- the relation exactly as worded in the task: same data, and either END in both or the same
`eof` / `pos` / `leadin` / `phase` / `curr` / `remaining` (in the END case `curr` is not compared) -/
def ObsEqTask (a b : Basic) : Prop :=
  a.stream.data = b.stream.data ∧
  ((a.eof = true ∧ b.eof = true) ∨
   (a.eof = b.eof ∧ a.stream.pos = b.stream.pos ∧ a.stream.leadin = b.stream.leadin ∧
    a.stream.phase = b.stream.phase ∧ a.curr = b.curr ∧ a.remaining = b.remaining))

theorem ObsEq.toTask {a b : Basic} (h : ObsEq a b) : ObsEqTask a b := by
  obtain ⟨hd, hc, he, hr⟩ := h
  refine ⟨hd, ?_⟩
  rcases hr with hr | ⟨h1, h2, h3, h4⟩
  · exact Or.inl ⟨hr, he ▸ hr⟩
  · exact Or.inr ⟨he, h1, h2, h3, hc, h4⟩

/-- **C16, with the task's relation.** `basicNext` preserves `ObsEqTask` and returns the same
header in both runs (`curr` of the result: equal `HObj`, i.e. equal `Hdr` value and identity when
the ledgers agree; `none` = END in both).  When END had been reached before with different stale
`curr`, the ledgers may differ (different objects are released), hence no ledger equality here;
`basicNext_kind_indep` gives it under `ObsEq`. -/
theorem basicNext_kind_indep_task (mk : Nat → Nat) (a b : Basic) (led : Ledger)
    (h : ObsEqTask a b) (wf : WF a) :
    ResRel (fun r r' => ObsEqTask r.1 r'.1 ∧ r.1.curr = r'.1.curr ∧ r.1.eof = r'.1.eof)
      (basicNext mk a led) (basicNext mk b led) := by
  obtain ⟨hd, h | ⟨he, h1, h2, h3, hc, h4⟩⟩ := h
  · obtain ⟨hea, heb⟩ := h
    rw [basicNext_eq, basicNext_eq]
    have fa := skip_frame a.stream a.remaining
    have fb := skip_frame b.stream b.remaining
    have ha : (afterSkip a led).1.eof = true ∧ (afterSkip a led).1.curr = none ∧
        (afterSkip a led).1.stream.data = a.stream.data := by
      unfold afterSkip
      cases hc : a.curr with
      | none => exact ⟨hea, hc, rfl⟩
      | some c => exact ⟨by simp [hea], rfl, fa.1⟩
    have hb : (afterSkip b led).1.eof = true ∧ (afterSkip b led).1.curr = none ∧
        (afterSkip b led).1.stream.data = b.stream.data := by
      unfold afterSkip
      cases hc : b.curr with
      | none => exact ⟨heb, hc, rfl⟩
      | some c => exact ⟨by simp [heb], rfl, fb.1⟩
    rw [nextTail_eof _ _ _ ha.1, nextTail_eof _ _ _ hb.1]
    exact ⟨⟨by rw [ha.2.2, hb.2.2, hd], Or.inl ⟨ha.1, hb.1⟩⟩, by rw [ha.2.1, hb.2.1], by rw [ha.1, hb.1]⟩
  · have hobs : ObsEq a b := ⟨hd, hc, he, Or.inr ⟨h1, h2, h3, h4⟩⟩
    have := basicNext_kind_indep mk a b led hobs wf
    cases hA : basicNext mk a led <;> cases hB : basicNext mk b led <;> rw [hA, hB] at this <;>
      first
        | exact this
        | exact ⟨this.1.toTask, this.1.2.1, this.1.2.2.1⟩

/-- `n` calls of `basicNext` in a row -/
def nextN (mk : Nat → Nat) : Nat → Basic × Ledger → Res (Basic × Ledger)
  | 0, x => .ok x
  | n+1, x => basicNext mk x.1 x.2 >>= nextN mk n

/-- a whole run of `basicNext` calls is independent of the kinds of the two sources -/
theorem nextN_kind_indep (mk : Nat → Nat) : ∀ (n : Nat) (a b : Basic) (led : Ledger),
    ObsEq a b → WF a →
    ResRel (fun r r' => ObsEq r.1 r'.1 ∧ r.2 = r'.2) (nextN mk n (a, led)) (nextN mk n (b, led)) := by
  intro n
  induction n with
  | zero => intro a b led h _; exact ⟨h, rfl⟩
  | succ n ih =>
    intro a b led h wf
    have h1 := basicNext_kind_indep mk a b led h wf
    simp only [nextN]
    cases hA : basicNext mk a led with
    | fault w =>
      cases hB : basicNext mk b led <;> rw [hA, hB] at h1 <;> first | exact h1 | cases h1
    | fail =>
      cases hB : basicNext mk b led <;> rw [hA, hB] at h1 <;> first | exact h1 | cases h1
    | ok r =>
      cases hB : basicNext mk b led with
      | fault w => rw [hA, hB] at h1; cases h1
      | fail => rw [hA, hB] at h1; cases h1
      | ok r' =>
        rw [hA, hB] at h1
        obtain ⟨ho, hl⟩ := h1
        obtain ⟨a', la⟩ := r
        obtain ⟨b', lb⟩ := r'
        simp only [] at hl ho
        subst hl
        exact ih a' b' la ho (basicNext_wf mk a led wf a' la hA)

/-- `closeDecoder` (the only other writer of the basic reader's stream) keeps `WF` -/
theorem wf_closeDecoder (s : Reader.St) (h : WF s.basic) : WF (closeDecoder s).basic := by
  unfold closeDecoder
  split
  · exact h
  · exact h

/-- **`read`: the task's bound "`moved` grows by at most `n`" is false in phase `init`**
(the start-of-stream scan runs first: `read` of 1 byte on a fresh stream that begins with a
header moves 24 bytes, on 30 blanks all 30; see `readMovedStatement_false`, `Audit/pv10.lean`).  This is the closest true statement: it excludes exactly the states with
`phase = init`; `read_bounds_total` covers those with the scan's bound added. -/
theorem read_moved_partial (s s' : St) (n : Nat) (o : Option (List UInt8))
    (hl : s.leadin.length ≤ 24) (hp : s.phase ≠ .init) (h : read s n = .ok (o, s')) :
    s.moved ≤ s'.moved ∧ s'.moved - s.moved ≤ n ∧ s'.reads - s.reads ≤ 1 := by
  obtain ⟨_, h2, h3, h4⟩ := read_bounds_started s s' n o hl hp h
  exact ⟨h3, h4, h2⟩

/-- the statement as worded, kept visible; refuted just below -/
def ReadMovedStatement : Prop :=
  ∀ (s s' : St) (n : Nat) (o : Option (List UInt8)), s.leadin.length ≤ 24 →
    read s n = .ok (o, s') → s'.moved - s.moved ≤ n

theorem readMovedStatement_false : ¬ ReadMovedStatement := by
  intro h
  have := h { kind := .seekable, data := (List.replicate 30 (0x20 : UInt8)).toArray }
    _ 1 _ (by simp) rfl
  revert this
  decide


/-! ## 12. reading the specification -/

/-- the limit in window terms: offset `i` lies in a window whose start `12 * (i / 12)` is
below `MAX_SFX_HEADER_LEN` -/
theorem scanLimit_window (i : Nat) : i < scanLimit ↔ 12 * (i / 12) < Gen.maxSfxHeaderLen := by
  have : scanLimit = 262152 := rfl
  have : Gen.maxSfxHeaderLen = 262144 := rfl
  omega

theorem firstFrom_no_marker (bs : List UInt8) (hm : ∀ j, ¬ markAt bs j) : ∀ (k i j : Nat),
    firstFrom bs k i 0 = some j ↔
      (i ≤ j ∧ j < i + k ∧ sigAt bs j ∧ ∀ j', i ≤ j' → j' < j → ¬ sigAt bs j') := by
  intro k
  induction k with
  | zero => intro i j; simp [firstFrom]; omega
  | succ k ih =>
    intro i j
    simp only [firstFrom, and_true]
    by_cases hs : sigAt bs i
    · simp only [hs, if_true, Option.some.injEq]
      constructor
      · rintro rfl; exact ⟨Nat.le_refl _, by omega, hs, fun j' h1 h2 => by omega⟩
      · rintro ⟨h1, _, _, h4⟩
        apply Classical.byContradiction; intro hne
        exact h4 i (Nat.le_refl _) (by omega) hs
    · have e : stepCtr bs i 0 = 0 := by simp [stepCtr, hm i, hs]
      simp only [hs, if_false, e, ih]
      constructor
      · rintro ⟨h1, h2, h3, h4⟩
        refine ⟨by omega, by omega, h3, fun j' h5 h6 => ?_⟩
        by_cases hj : j' = i
        · subst hj; exact hs
        · exact h4 j' (by omega) h6
      · rintro ⟨h1, h2, h3, h4⟩
        have : j ≠ i := by rintro rfl; exact hs h3
        exact ⟨by omega, by omega, h3, fun j' h5 h6 => h4 j' (by omega) h6⟩

/-- without any SFX marker in the data the specification is simply: the least examined offset
carrying a signature -/
theorem firstHeader_no_marker (bs : List UInt8) (hm : ∀ j, ¬ markAt bs j) (i : Nat) :
    firstHeader bs = some i ↔
      (i + 12 < bs.length ∧ i < Gen.maxSfxHeaderLen + 8 ∧ sigAt bs i ∧ ∀ j, j < i → ¬ sigAt bs j) := by
  have : scanLimit = Gen.maxSfxHeaderLen + 8 := rfl
  unfold firstHeader firstHeaderLim
  rw [firstFrom_no_marker bs hm]
  constructor
  · rintro ⟨_, h2, h3, h4⟩
    exact ⟨by omega, by omega, h3, fun j hj => h4 j (Nat.zero_le _) hj⟩
  · rintro ⟨h1, h2, h3, h4⟩
    exact ⟨Nat.zero_le _, by omega, h3, fun j _ hj => h4 j hj⟩


end LhasaV.Stream
