import LhasaV.Lemmas.Lh1Mirror8
/-!
# C02, layer 9: `reconstruct_tree` mirrors `reconst`
-/
namespace LhasaV.Lh1Mirror
open LhasaV LhasaV.Lh1 LhasaV.Spec.Lzhuf LhasaV.Res

/-! ## counting leaves from both ends -/

theorem cnt_mirror (zl' lf : Nat → Bool) (h : ∀ p, p < 627 → zl' p = lf (626 - p)) :
    ∀ p, p ≤ 627 → cntP zl' p + cntP lf (627 - p) = cntP lf 627 := by
  intro p
  induction p with
  | zero =>
    intro _
    show 0 + cntP lf (627 - 0) = cntP lf 627
    rw [Nat.sub_zero]; omega
  | succ p ih =>
    intro hp
    have := ih (by omega)
    have e : 627 - p = (627 - (p + 1)) + 1 := by omega
    rw [e, rb_cnt_succ] at this
    rw [rb_cnt_succ, h p (by omega)]
    have e2 : 626 - p = 627 - (p + 1) := by omega
    rw [e2]
    omega

/-! ## the parents: `connectPrnt` against the decoder's parent / leaf pointers -/

theorem mirF_connect {lf : Nat → Bool} {ch pa fr ln : Nat → Nat} (ht : Tree lf ch pa fr ln 0)
    (S P P3 : Array Nat)
    (hL : ∀ j, j < 627 → lf j = true → S.getD (626 - j) 0 = ch j + 627)
    (hB : ∀ j, j < 627 → lf j = false → S.getD (626 - j) 0 + ch j = 626)
    (ha : ∀ m, (∀ i', 0 ≤ i' → i' < 0 + 627 → ¬ Wr S i' m) → P3.getD m 0 = P.getD m 0)
    (hb : ∀ m i', 0 ≤ i' → i' < 0 + 627 → Wr S i' m → (∀ i'', i' < i'' → i'' < 0 + 627 → ¬ Wr S i'' m) →
      P3.getD m 0 = i')
    (hroot : P.getD 626 0 = 0) :
    (∀ j, 1 ≤ j → j < 627 → P3.getD (626 - j) 0 + pa j = 626) ∧ P3.getD 626 0 = 0 ∧
    (∀ c, c < 314 → P3.getD (c + 627) 0 + ln c = 626) := by
  -- what a writer of position `m` looks like
  have hw : ∀ i'' m, i'' < 627 → Wr S i'' m →
      (lf (626 - i'') = true ∧ m = ch (626 - i'') + 627) ∨
      (lf (626 - i'') = false ∧ (m + ch (626 - i'') = 626 ∨ m + ch (626 - i'') = 627)) := by
    intro i'' m hi hwr
    unfold Wr at hwr
    cases hl : lf (626 - i'')
    · right
      have := hB (626 - i'') (by omega) hl
      have e : 626 - (626 - i'') = i'' := by omega
      rw [e] at this
      refine ⟨rfl, ?_⟩
      omega
    · left
      have := hL (626 - i'') (by omega) hl
      have e : 626 - (626 - i'') = i'' := by omega
      rw [e] at this
      refine ⟨rfl, ?_⟩
      omega
  refine ⟨?_, ?_, ?_⟩
  · intro j h1 hj
    obtain ⟨p1, p2, p3⟩ := ht.pr j h1 hj
    have hs := hB (pa j) (by omega) p2
    have hbr := ht.br (pa j) (by omega) p2
    have hwr : Wr S (626 - pa j) (626 - j) := by
      unfold Wr
      omega
    have huniq : ∀ i'', i'' < 627 → Wr S i'' (626 - j) → i'' = 626 - pa j := by
      intro i'' hi hwr'
      rcases hw i'' _ hi hwr' with ⟨_, e⟩ | ⟨hl, e⟩
      · omega
      · have hb' := ht.br (626 - i'') (by omega) hl
        rcases e with e | e
        · have : ch (626 - i'') = j := by omega
          have h3 := hb'.2.2.1
          rw [this] at h3
          omega
        · have : ch (626 - i'') - 1 = j := by omega
          have h3 := hb'.2.2.2
          rw [this] at h3
          omega
    rw [hb (626 - j) (626 - pa j) (by omega) (by omega) hwr
      (fun i'' h1' h2' hw' => by have := huniq i'' (by omega) hw'; omega)]
    omega
  · rw [ha 626 ?_]
    · exact hroot
    · intro i'' _ hi hwr
      rcases hw i'' _ (by omega) hwr with ⟨_, e⟩ | ⟨hl, e⟩
      · omega
      · have hb' := ht.br (626 - i'') (by omega) hl
        omega
  · intro c hc
    obtain ⟨c1, c2, c3⟩ := ht.cd c hc
    have hs := hL (ln c) c1 c2
    have hwr : Wr S (626 - ln c) (c + 627) := by
      unfold Wr
      left; rw [hs, c3]
    have huniq : ∀ i'', i'' < 627 → Wr S i'' (c + 627) → i'' = 626 - ln c := by
      intro i'' hi hwr'
      rcases hw i'' _ hi hwr' with ⟨hl, e⟩ | ⟨hl, e⟩
      · have h3 := (ht.le (626 - i'') (by omega) hl).2
        have : ch (626 - i'') = c := by omega
        rw [this] at h3
        omega
      · have hb' := ht.br (626 - i'') (by omega) hl
        omega
    rw [hb (c + 627) (626 - ln c) (by omega) (by omega) hwr
      (fun i'' h1' h2' hw' => by have := huniq i'' (by omega) hw'; omega)]
    omega

/-! ## assembly -/

/-- `reconst` with the loop bounds as parameters (so that no defeq check starts running the loops) -/
def reconstG (t n nc : Nat) (s : TreeState) : TreeState :=
  match s with
  | ⟨freq, prnt, son⟩ =>
    let (freq, son) := collectLeaves t 0 0 freq son
    let (freq, son) := buildInner n 0 nc freq son
    let prnt := connectPrnt t 0 son prnt
    ⟨freq, prnt, son⟩

theorem reconstG_eq (t n nc : Nat) (z : TreeState) :
    reconstG t n nc z =
      ⟨(buildInner n 0 nc (collectLeaves t 0 0 z.freq z.son).1
          (collectLeaves t 0 0 z.freq z.son).2).1,
       connectPrnt t 0 (buildInner n 0 nc (collectLeaves t 0 0 z.freq z.son).1
          (collectLeaves t 0 0 z.freq z.son).2).2 z.prnt,
       (buildInner n 0 nc (collectLeaves t 0 0 z.freq z.son).1
          (collectLeaves t 0 0 z.freq z.son).2).2⟩ := by
  cases z with
  | mk f p s =>
    unfold reconstG
    simp only []

theorem reconst_eq (z : TreeState) :
    reconst z =
      ⟨(buildInner 313 0 314 (collectLeaves 627 0 0 z.freq z.son).1
          (collectLeaves 627 0 0 z.freq z.son).2).1,
       connectPrnt 627 0 (buildInner 313 0 314 (collectLeaves 627 0 0 z.freq z.son).1
          (collectLeaves 627 0 0 z.freq z.son).2).2 z.prnt,
       (buildInner 313 0 314 (collectLeaves 627 0 0 z.freq z.son).1
          (collectLeaves 627 0 0 z.freq z.son).2).2⟩ := by
  have e : reconst z = reconstG T (T - N_CHAR) N_CHAR z := rfl
  have hTN : T - N_CHAR = 313 := rfl
  have hT : T = 627 := rfl
  have hN : N_CHAR = 314 := rfl
  rw [e, hTN, hT, hN]
  exact reconstG_eq 627 313 314 z

/-- **Rebuild.**  `reconstruct_tree` succeeds, re-establishes the decoder invariant with a root
frequency below the limit, and produces the mirror image of LZHUF's `reconst`. -/
theorem mirror_rebuild (d : St) (z : TreeState) (hm : Mirror d z) (hi : Lh1.Inv d) :
    ∃ d', reconstructTree d = .ok d' ∧ Lh1.Inv d' ∧ fr d' 0 < 0x8000 ∧ Mirror d' (reconst z) := by
  obtain ⟨hw, hmf⟩ := hm
  have ht := hi.tree
  have hs := hi.grp.sorted
  have hf : ∀ i, i < 627 → fr d i ≤ 32768 := fun i hi' =>
    Nat.le_trans (hs.le (Nat.zero_le i) hi') ht.top
  -- first loop, decoder
  have h0 : ga_Inv d d 0 :=
    { base := hi.base, rest := fun _ _ => rfl, slot := fun q hq => by omega }
  obtain ⟨s1, e1, hga⟩ := ga_loop d hf 627 0 d rfl h0
  have hG : Gathered s1 := ga_final d s1 ht hs hga
  have g := rb_G_of hG
  -- first loop, LZHUF
  have hc0 : CollInv z.freq z.son 0 z.freq z.son :=
    ⟨hw.freq, hw.son, fun _ _ => ⟨rfl, rfl⟩, fun q hq => by omega⟩
  have hcl := collectLeaves_spec z.freq z.son 627 0 z.freq z.son rfl hc0
  have ec : cntP (zl z.son) 0 = 0 := rfl
  rw [ec] at hcl
  generalize hF1 : (collectLeaves 627 0 0 z.freq z.son).1 = F1 at hcl
  generalize hS1 : (collectLeaves 627 0 0 z.freq z.son).2 = S1 at hcl
  -- the leaf predicates agree
  have hzl : ∀ p, p < 627 → zl z.son p = lf d (626 - p) := by
    intro p hp
    cases hl : lf d (626 - p)
    · have := hmf.sonB (626 - p) (by omega) hl
      have e : 626 - (626 - p) = p := by omega
      rw [e] at this
      simp only [zl, decide_eq_false_iff_not]
      show ¬ 627 ≤ zs z p
      omega
    · have := hmf.sonL (626 - p) (by omega) hl
      have e : 626 - (626 - p) = p := by omega
      rw [e] at this
      simp only [zl, decide_eq_true_eq]
      show 627 ≤ zs z p
      omega
  have hcm := cnt_mirror (zl z.son) (lf d) hzl
  -- the gathered leaves are mirror images
  have hR0 : RBM (ch s1) (fr s1) (lf s1) (ch s1) (fr s1) 0 0 F1 S1 := by
    refine ⟨hcl.szF, hcl.szS, fun p hp => by omega, fun p hp => by omega, fun p hp => by omega, ?_, ?_⟩
    · intro m _ hm'
      obtain ⟨q, hq, hlq, hcq⟩ := ga_cnt_cover (lf d) 627 (313 - m) (by rw [ht.nleaf]; omega)
      have hsl := hga.slot q hq hlq
      rw [hcq] at hsl
      have hzq : zl z.son (626 - q) = true := by
        rw [hzl (626 - q) (by omega)]
        have e : 626 - (626 - q) = q := by omega
        rw [e]; exact hlq
      have hcz : cntP (zl z.son) (626 - q) = m := by
        have := hcm (626 - q) (by omega)
        have e : 627 - (626 - q) = q + 1 := by omega
        rw [e, ga_cnt_succ_true _ _ hlq, ht.nleaf] at this
        omega
      have hsz := hcl.slot (626 - q) (by omega) hzq
      rw [hcz] at hsz
      have hq0 : q ≠ 0 := by
        intro e; rw [e] at hlq; rw [ht.ch0.1] at hlq; cases hlq
      have hfq := hmf.freq q hq
      rw [if_neg hq0] at hfq
      have hsq := hmf.sonL q hq hlq
      rw [Nat.add_zero, hsz.1, hsz.2, hsl.2.2, hsl.2.1]
      exact ⟨by show (zf z (626 - q) + 1) / 2 = _; omega, hsq⟩
    · rw [(hcl.rest 627 (Nat.le_refl _)).1]
      exact hmf.sent
  -- second loop
  have hinit : rb_SI s1 s1 0 0 627 :=
    ⟨hG.base, rb_init (fun k hk => ⟨(hG.leaf k hk).1, rfl, rfl⟩)⟩
  obtain ⟨s2, e2, hsi2, hR2⟩ :=
    rbm_outer g (numNodes + 1) s1 0 0 627 ((numNodes - 1 : Nat) : Int) ((numCodes - 1 : Nat) : Int)
      ((numNodes - 1 : Nat) : Int) F1 S1 hinit hR0 (Or.inl rfl) (Nat.le_refl _) (by decide) (by decide)
      (by decide)
  obtain ⟨hb2, hinv2⟩ := hsi2
  obtain ⟨ht2, hs2, hlt2⟩ := rb_final g hinv2
  simp only [Nat.sub_zero, Nat.mul_zero, Nat.add_zero] at hR2
  generalize hF2 : (buildInner 313 0 314 F1 S1).1 = F2 at hR2
  generalize hS2 : (buildInner 313 0 314 F1 S1).2 = S2 at hR2
  -- third loop
  obtain ⟨s3, e3, hb3, elf, ech, epa, efr, eln, hg3⟩ := regroupAll_spec s2 hb2 hs2
  refine ⟨s3, ?_, ⟨hb3, ?_, hg3⟩, ?_, ?_⟩
  · have hc0' : cntP (lf d) 0 = 0 := rfl
    have hnn : numNodes = 627 := rfl
    rw [hc0', ← hnn] at e1
    rw [reconstructTree_eq]
    exact bind_eq_ok.2 ⟨s1, e1, bind_eq_ok.2 ⟨s2, e2, e3⟩⟩
  · rw [elf, ech, epa, efr, eln]; exact ht2
  · rw [efr]; exact hlt2
  · -- the mirror relation
    rw [reconst_eq, hF1, hS1, hF2, hS2]
    have hSb : ∀ i, i < 627 → S2.getD i 0 < 941 := by
      intro i hi'
      cases hl : lf s2 (626 - i)
      · have := hR2.plB i (by omega) hl; omega
      · have := hR2.plL i (by omega) hl
        have := (ht2.le (626 - i) (by omega) hl).1
        omega
    obtain ⟨p1, p2, p3⟩ := connectPrnt_spec S2 hSb 627 0 z.prnt hw.prnt (by omega)
    generalize connectPrnt 627 0 S2 z.prnt = P3 at p1 p2 p3
    have hL : ∀ j, j < 627 → lf s2 j = true → S2.getD (626 - j) 0 = ch s2 j + 627 := by
      intro j hj hl
      have e : 626 - (626 - j) = j := by omega
      have := hR2.plL (626 - j) (by omega) (by rw [e]; exact hl)
      rw [e] at this; exact this
    have hB : ∀ j, j < 627 → lf s2 j = false → S2.getD (626 - j) 0 + ch s2 j = 626 := by
      intro j hj hl
      have e : 626 - (626 - j) = j := by omega
      have := hR2.plB (626 - j) (by omega) (by rw [e]; exact hl)
      rw [e] at this; exact this
    obtain ⟨q1, q2, q3⟩ := mirF_connect ht2 S2 z.prnt P3 hL hB p2 p3 hmf.root
    refine ⟨⟨hR2.szF, p1, hR2.szS⟩, ?_⟩
    rw [elf, ech, epa, efr, eln]
    refine ⟨?_, hR2.sent, hL, hB, q1, q2, q3⟩
    intro j hj
    have e : 626 - (626 - j) = j := by omega
    have := hR2.plF (626 - j) (by omega)
    rw [e] at this
    show F2.getD (626 - j) 0 + _ = _
    rw [this]
    split <;> rfl

end LhasaV.Lh1Mirror
