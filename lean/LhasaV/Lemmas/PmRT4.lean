import LhasaV.Lemmas.PmRT2
import LhasaV.Lemmas.TreeCanon
import LhasaV.Lemmas.LhNewCmd
/-!
PMarc round trip, part B (3): the variable-length codes of -pm2-:

* `getCount_spec`: the `history_get_count` part of `lha_pm2_decoder_read` inverts `pm2LenCode`;
* `getOffset_spec`: `history_get_offset` inverts `pm2OffCode`, given that the offset tree decodes
  the code of the offset table (`TreeFor`);
* `treeFor_lens`, `treeFor_single`: `build_tree` / `set_tree_single` establish `TreeFor`
  (from `Tree.readFromTree_canonical`);
* `readByte2_spec`: `read_single_byte` inverts the byte classes.
-/
set_option linter.unusedSimpArgs false
namespace LhasaV.PmRT
open LhasaV LhasaV.Spec.PmEnc LhasaV.Spec.Lz77 LhasaV.Spec.LhNewEnc LhasaV.LzRoundTrip

/-! ### copy length -/

/-- the `history_get_count` part of `lha_pm2_decoder_read`, copy symbol `c = code − 8` -/
def getCount (r : Bits) (c : Nat) : Res (Option Nat × Bits) :=
  if c < 15 then (.ok (some (c + 2), r) : Res (Option Nat × Bits))
  else if c - 15 < Gen.pm2CopyDecode.length then
    Pma.decodeVarLen "pm2: copy_decode[code - 15]" Gen.pm2CopyDecode r (c - 15)
  else .ok (none, r)

/-- **B4a.** `history_get_count` inverts `pm2LenCode` (both codes of the length 256 included) -/
theorem getCount_spec (V : BitView) (n : Nat) (alt : Bool) (c : Nat) (ex : List Bool)
    (h : pm2LenCode n alt = some (c, ex)) (r : Bits) (rest : List Bool)
    (hr : V.R r (ex ++ rest)) :
    ∃ r', getCount r c = .ok (some n, r') ∧ V.R r' rest := by
  by_cases hc : 15 ≤ c
  · obtain ⟨lo, w, h1, h2, h3, h4⟩ := pm2_len_classes_match n alt c ex h hc
    subst h4
    have hlen : c - 15 < Gen.pm2CopyDecode.length := (List.getElem?_eq_some_iff.mp h1).1
    have hw : w ≤ 25 := by
      have hm := List.mem_of_getElem? h1
      have : ∀ e ∈ Gen.pm2CopyDecode, e.2 ≤ 25 := by decide
      exact this _ hm
    obtain ⟨r', e, hr'⟩ := decodeVarLen_entry V "pm2: copy_decode[code - 15]" Gen.pm2CopyDecode
      n (c - 15) lo w h1 h2 (by omega) hw r rest hr
    refine ⟨r', ?_, hr'⟩
    unfold getCount
    rw [if_neg (by omega), if_pos hlen]
    exact e
  · unfold pm2LenCode at h
    split at h
    · split at h
      · cases h; omega
      · cases h
    · repeat' split at h
      all_goals cases h
      all_goals try omega
      refine ⟨r, ?_, by simpa using hr⟩
      unfold getCount
      rw [if_pos (by omega)]
      congr 3; omega

/-- the copy symbols: `0..14` for the lengths 2..16, `15..19` for the classes, `20` for the
alternative code of 256 -/
theorem lenCode_range (n : Nat) (alt : Bool) (c : Nat) (ex : List Bool)
    (h : pm2LenCode n alt = some (c, ex)) : c ≤ 20 ∧ 2 ≤ n ∧ n ≤ 256 ∧ (c = 20 ↔ alt = true) ∧
      (c = 0 ↔ n = 2) ∧ (c < 15 → ex = []) := by
  unfold pm2LenCode at h
  split at h
  · rename_i ha
    split at h
    · cases h; subst ha; simp; omega
    · cases h
  · rename_i ha
    repeat' split at h
    all_goals cases h
    all_goals simp [ha]
    all_goals omega

/-! ### distance -/

/-- the tree decodes the code of the table: for every symbol `sym` that has a code, reading
`word sym ++ rest` returns `sym` and leaves `rest` -/
def TreeFor (V : BitView) (tree : Array Nat) (tbl : Table) : Prop :=
  ∀ sym, tbl.has sym = true → ∀ r rest, V.R r (tbl.word sym ++ rest) →
    ∃ r', Tree.readFromTree Pm2.lb tree r = .ok (some sym, r') ∧ V.R r' rest

/-- `build_tree` on a complete length table gives the tree of its canonical code -/
theorem treeFor_lens (t : Array Nat) (treeLen : Nat) (lens : List Nat)
    (hlb : 2 * lens.length ≤ Pm2.lb) (hcomplete : Spec.Canon.complete lens = true)
    (hbyte : ∀ l ∈ lens, l < 256) (hlen : 2 * lens.length ≤ treeLen) (hsize : treeLen ≤ t.size) :
    TreeFor stdView (Tree.buildTree Pm2.lb t treeLen lens).1 (.lens lens) := by
  intro sym hs r rest hr
  simp only [Table.has, decide_eq_true_eq] at hs
  have hi : sym < lens.length := by
    by_cases h : sym < lens.length
    · exact h
    · simp [List.getD_eq_getElem?_getD, List.getElem?_eq_none (Nat.le_of_not_lt h)] at hs
  obtain ⟨r', e, h1, h2⟩ := Tree.readFromTree_canonical Pm2.lb t treeLen lens hlb hcomplete hbyte
    hlen hsize sym hi hs r hr.1 rest hr.2
  exact ⟨r', e, h1, h2⟩

/-- `set_tree_single` gives the tree that decodes the one symbol without reading a bit -/
theorem treeFor_single (V : BitView) (t : Array Nat) (c : Nat) (hc : c < Pm2.lb) (ht : 0 < t.size) :
    TreeFor V (Tree.setSingle Pm2.lb t (c : Int)) (.single c) := by
  intro sym hs r rest hr
  simp only [Table.has, beq_iff_eq] at hs
  subst hs
  exact ⟨r, Tree.readFromTree_single Pm2.lb t sym hc ht r, by simpa [Table.word] using hr⟩

/-- **B4b.** `history_get_offset`, copy symbol 0 (two bytes): a 6-bit distance -/
theorem getOffset_zero (V : BitView) (s : Pm2.St) (d : Nat) (hd : d < 64) (rest : List Bool)
    (hr : V.R s.bits (bitsN 6 d ++ rest)) :
    ∃ r', Pm2.historyGetOffset s 0 = .ok (some d, r') ∧ V.R r' rest := by
  obtain ⟨e1, r1⟩ := V.read _ 6 d rest hr (by decide) (by omega)
  refine ⟨_, ?_, r1⟩
  unfold Pm2.historyGetOffset
  simp only [if_true, e1]

/-- **B4b.** `history_get_offset`, copy symbols 1..19: `pm2OffCode` through the offset tree -/
theorem getOffset_spec (V : BitView) (s : Pm2.St) (c : Nat) (hc0 : c ≠ 0) (hc : c < 20)
    (d : Nat) (hd : d < 8192) (ot : Table) (hT : TreeFor V s.offsetTree ot)
    (hhas : ot.has (pm2OffCode d).1 = true) (rest : List Bool)
    (hr : V.R s.bits (ot.word (pm2OffCode d).1 ++ (pm2OffCode d).2 ++ rest)) :
    ∃ r', Pm2.historyGetOffset s c = .ok (some d, r') ∧ V.R r' rest := by
  rw [List.append_assoc] at hr
  obtain ⟨r1, e1, hr1⟩ := hT _ hhas _ _ hr
  unfold Pm2.historyGetOffset
  simp only [hc0, hc, if_true, if_false]
  rw [e1]
  simp only [Res.ok_bind]
  unfold pm2OffCode at hr1 ⊢
  by_cases h64 : d < 64
  · simp only [h64, if_true] at hr1 ⊢
    obtain ⟨e2, r2⟩ := V.read _ 6 d rest hr1 (by decide) (by omega)
    exact ⟨_, by simp only [e2], r2⟩
  · simp only [h64, if_false] at hr1 ⊢
    have hd0 : d ≠ 0 := by omega
    obtain ⟨hL, hU⟩ := LhNewCmd.log2_bounds d hd0
    have h6 : 6 ≤ Nat.log2 d := (Nat.le_log2 hd0).2 (by omega)
    have h13 : Nat.log2 d < 13 := (Nat.log2_lt hd0).2 (by omega)
    generalize Nat.log2 d = L at *
    have hm : d - 2 ^ L < 2 ^ L := by rw [Nat.pow_succ] at hU; omega
    have hv : ¬ L - 5 = 0 := by omega
    have e5 : L - 5 + 5 = L := by omega
    simp only [hv, if_false, e5]
    obtain ⟨e2, r2⟩ := V.read _ L (d - 2 ^ L) rest hr1 (by omega) hm
    refine ⟨_, ?_, r2⟩
    simp only [e2, Option.map_some]
    congr 3; omega

/-- `history_get_offset`, copy symbol 20: distance 0 without reading a bit -/
theorem getOffset_alt (s : Pm2.St) : Pm2.historyGetOffset s 20 = .ok (some 0, s.bits) := by
  unfold Pm2.historyGetOffset
  simp

/-- the offset symbols: 0 for distances below 64, else `log2 d − 5 ∈ 1..7` -/
theorem offCode_range (d : Nat) (hd : d < 8192) : (pm2OffCode d).1 < 8 := by
  unfold pm2OffCode
  split
  · show 0 < 8
    decide
  · have hd0 : d ≠ 0 := by omega
    have h13 : Nat.log2 d < 13 := (Nat.log2_lt hd0).2 (by omega)
    show Nat.log2 d - 5 < 8
    omega

/-! ### literal bytes -/

/-- **B4c.** `read_single_byte` inverts the byte classes of -pm2-: class symbol `c` followed by
the position inside the class gives the byte at move-to-front position `k` -/
theorem readByte2_spec (V : BitView) (k c lo w : Nat) (hk : k < 256)
    (hc : classOf pm2ByteClasses k = some (c, lo, w)) (hist : Pma.Hist) (l : List UInt8)
    (hl : HistRel hist l) (r : Bits) (rest : List Bool) (hr : V.R r (bitsN w (k - lo) ++ rest)) :
    ∃ r', Pma.decodeVarLen "pm2: history_decode[code]" Gen.pm2HistoryDecode r c = .ok (some k, r') ∧
      V.R r' rest ∧ Pma.find hist (k % 256) = .ok (l.getD k 0).toNat := by
  have hw : w ≤ 25 := by
    obtain ⟨c', lo', w', e, _, hw'⟩ := classOf_pm2_total k hk
    rw [hc] at e; cases e; omega
  obtain ⟨r', e, hr'⟩ := decodeVarLen_spec V "pm2: history_decode[code]" Gen.pm2HistoryDecode k c lo w
    hc hw r rest hr
  exact ⟨r', e, hr', by rw [Nat.mod_eq_of_lt hk]; exact find_spec _ _ hl k hk⟩

/-! ### non-vacuity -/

example : pm2LenCode 100 false = some (18, bitsN 6 35) := by decide
example : pm2LenCode 256 true = some (20, []) := by decide
example : pm2OffCode 1000 = (4, bitsN 9 488) := by decide
example : TreeFor stdView
    (Tree.buildTree Pm2.lb (Tree.initTree Pm2.lb Gen.pm2OffsetTreeCap) Gen.pm2OffsetTreeElements
      [2, 2, 2, 3, 3]).1 (.lens [2, 2, 2, 3, 3]) :=
  treeFor_lens _ _ _ (by decide) (by decide) (by decide) (by decide) (by decide)

end LhasaV.PmRT
