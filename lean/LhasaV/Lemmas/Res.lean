import LhasaV.Model.Basic
/-! Helper lemmas for reasoning about `Res`-monadic models. -/
namespace LhasaV.Res

theorem bind_eq_ok {α β} {x : Res α} {f : α → Res β} {b : β} :
    (x >>= f) = ok b ↔ ∃ a, x = ok a ∧ f a = ok b := by
  cases x <;> simp [Bind.bind, Res.bind]

theorem bind_eq_fault {α β} {x : Res α} {f : α → Res β} {w : String} :
    (x >>= f) = fault w ↔ x = fault w ∨ ∃ a, x = ok a ∧ f a = fault w := by
  cases x <;> simp [Bind.bind, Res.bind]

theorem bind_eq_fail {α β} {x : Res α} {f : α → Res β} :
    (x >>= f) = fail ↔ x = fail ∨ ∃ a, x = ok a ∧ f a = fail := by
  cases x <;> simp [Bind.bind, Res.bind]

end LhasaV.Res
