import LhasaV.Lemmas.PmRT4
import LhasaV.Lemmas.PmRT5
/-!
PMarc round trip, part D (2a): `rebuild_tree` of -pm2- reads exactly what `rebuildBits` of the
specification transmits at a rebuild point, and ends with the trees of the transmitted tables.
-/
set_option linter.unusedSimpArgs false
namespace LhasaV.PmRT
open LhasaV LhasaV.Spec.PmEnc LhasaV.Spec.Lz77 LhasaV.Spec.LhNewEnc LhasaV.LzRoundTrip LhasaV.Pm2

abbrev SV := stdView

/-! ### code lengths -/

/-- the transmitted form of a code length -/
def encLen (m lb l : Nat) : List Bool := bitsN lb (if l = 0 then 0 else l - m + 1)

theorem codeLenLoop_spec (m lb : Nat) (hlb : lb ≤ 7) (hm : m ≤ 7) (ls : List Nat) (i : Nat)
    (lens : Array Nat) (hi : i + ls.length ≤ 31)
    (hall : ∀ l ∈ ls, l = 0 ∨ (m ≤ l ∧ l - m + 1 < 2 ^ lb))
    (r : Bits) (rest : List Bool) (hr : SV.R r (ls.flatMap (encLen m lb) ++ rest)) :
    ∃ lens' r', codeLenLoop m lb ls.length i lens r = .ok (some lens', r') ∧ SV.R r' rest ∧
      lens'.size = lens.size ∧
      ∀ j, lens'[j]? = if i ≤ j ∧ j < i + ls.length ∧ j < lens.size then ls[j - i]? else lens[j]? := by
  induction ls generalizing i lens r with
  | nil =>
    refine ⟨lens, r, rfl, by simpa using hr, rfl, ?_⟩
    intro j
    have : ¬ (i ≤ j ∧ j < i + ([] : List Nat).length ∧ j < lens.size) := by simp; omega
    rw [if_neg this]
  | cons l ls ih =>
    rw [List.flatMap_cons, List.append_assoc] at hr
    have hl := hall l (List.mem_cons_self ..)
    have hv : (if l = 0 then 0 else l - m + 1) < 2 ^ lb := by
      split
      · exact Nat.two_pow_pos _
      · rcases hl with h | h
        · contradiction
        · exact h.2
    obtain ⟨e1, r1⟩ := SV.read r lb _ _ hr (by omega) hv
    simp only [List.length_cons] at hi
    obtain ⟨lens', r', g1, g2, g3, g4⟩ := ih (i + 1)
      (lens.setIfInBounds i (if (if l = 0 then 0 else l - m + 1) = 0 then 0
        else (m + (if l = 0 then 0 else l - m + 1) - 1) % 256))
      (by omega) (fun x hx => hall x (List.mem_cons_of_mem _ hx)) _ r1
    refine ⟨lens', r', ?_, g2, by rw [g3]; simp, ?_⟩
    · simp only [List.length_cons, codeLenLoop, e1, (by omega : i < 31), if_true]
      exact g1
    · intro j
      rw [g4 j]
      simp only [Array.size_setIfInBounds, List.length_cons, Array.getElem?_setIfInBounds]
      by_cases hj : j = i
      · subst hj
        have c1 : ¬ (j + 1 ≤ j ∧ j < j + 1 + ls.length ∧ j < lens.size) := by omega
        rw [if_neg c1]
        by_cases hsz : j < lens.size
        · have c2 : j ≤ j ∧ j < j + (ls.length + 1) ∧ j < lens.size := ⟨Nat.le_refl _, by omega, hsz⟩
          simp only [if_true, hsz, c2, and_self, Nat.sub_self, List.getElem?_cons_zero]
          congr 1
          by_cases hl0 : l = 0
          · simp [hl0]
          · have h : m ≤ l ∧ l - m + 1 < 2 ^ lb := by
              rcases hl with h | h
              · contradiction
              · exact h
            have hp : 2 ^ lb ≤ 2 ^ 7 := Nat.pow_le_pow_right (by decide) hlb
            have h2 : ¬ l - m + 1 = 0 := by omega
            simp only [hl0, if_false, h2]
            omega
        · have c2 : ¬ (j ≤ j ∧ j < j + (ls.length + 1) ∧ j < lens.size) := by omega
          simp only [if_true, hsz, if_false, c2]
          simp [hsz]
      · by_cases hc : i + 1 ≤ j ∧ j < i + 1 + ls.length ∧ j < lens.size
        · have c2 : i ≤ j ∧ j < i + (ls.length + 1) ∧ j < lens.size := by omega
          rw [if_pos hc, if_pos c2]
          have : j - i = (j - (i + 1)) + 1 := by omega
          rw [this, List.getElem?_cons_succ]
        · have c2 : ¬ (i ≤ j ∧ j < i + (ls.length + 1) ∧ j < lens.size) := by omega
          rw [if_neg hc, if_neg c2, if_neg (fun e => hj e.symm)]

theorem take_of_getElem? (a : Array Nat) (ls : List Nat) (_hn : ls.length ≤ a.size)
    (h : ∀ j, j < ls.length → a[j]? = ls[j]?) : a.toList.take ls.length = ls := by
  apply List.ext_getElem?
  intro j
  rw [List.getElem?_take]
  by_cases hj : j < ls.length
  · rw [if_pos hj, Array.getElem?_toList, h j hj]
  · rw [if_neg hj]
    simp [List.getElem?_eq_none (Nat.le_of_not_lt hj)]

/-- `read_code_tree` reads a transmitted code table and builds its tree -/
theorem readCodeTree_spec (s : St) (hinv : Pm2.Inv s) (cs : CodeSpec) (hwf : codeSpecWf cs = true)
    (rest : List Bool) (hr : SV.R s.bits (codeSpecBits cs ++ rest)) :
    ∃ s', readCodeTree s = .ok s' ∧ SV.R s'.bits rest ∧ TreeFor SV s'.codeTree (codeSpecTable cs) ∧
      s'.needOffsetTree = codeSpecNeed cs ∧ s'.offsetTree = s.offsetTree := by
  cases cs with
  | single n =>
    simp only [codeSpecWf, decide_eq_true_eq] at hwf
    simp only [codeSpecBits, List.append_assoc] at hr
    obtain ⟨e1, r1⟩ := SV.read _ 5 n _ hr (by decide) (by omega)
    obtain ⟨e2, r2⟩ := SV.read _ 3 0 _ r1 (by decide) (by decide)
    refine ⟨{ s with bits := ((s.bits.readBits 5).2.readBits 3).2,
                     needOffsetTree := decide (n ≥ 10) && !(n == 29 && (0 : Nat) == 0),
                     codeTree := Tree.setSingle lb s.codeTree ((n : Int) - 1) }, ?_, r2, ?_, ?_, rfl⟩
    · unfold readCodeTree
      simp only [e1, e2, if_true]
    · show TreeFor SV (Tree.setSingle lb s.codeTree ((n : Int) - 1)) (.single (n - 1))
      have : ((n : Int) - 1) = ((n - 1 : Nat) : Int) := by omega
      rw [this]
      exact treeFor_single SV _ _ (by show n - 1 < 128; omega) (by rw [hinv.codeSz]; decide)
    · show (decide (n ≥ 10) && !(n == 29 && (0 : Nat) == 0)) = codeSpecNeed (.single n)
      simp [codeSpecNeed]
  | lens m lbits ls =>
    simp only [codeSpecWf, Bool.and_eq_true, decide_eq_true_eq, List.all_eq_true] at hwf
    obtain ⟨⟨⟨hm1, hm7, hlb, hl1, hl31⟩, hcomp⟩, hall⟩ := hwf
    simp only [codeSpecBits, List.append_assoc] at hr
    obtain ⟨e1, r1⟩ := SV.read _ 5 ls.length _ hr (by decide) (by omega)
    obtain ⟨e2, r2⟩ := SV.read _ 3 m _ r1 (by decide) (by omega)
    obtain ⟨e3, r3⟩ := SV.read _ 3 lbits _ r2 (by decide) (by omega)
    obtain ⟨lens', r', g1, g2, g3, g4⟩ := codeLenLoop_spec m lbits hlb hm7 ls 0 (Array.replicate 31 0)
      (by omega) hall _ rest r3
    have htake : lens'.toList.take ls.length = ls := by
      apply take_of_getElem? lens' ls (by rw [g3]; simp; omega)
      intro j hj
      rw [g4 j]
      have : 0 ≤ j ∧ j < 0 + ls.length ∧ j < (Array.replicate 31 (0 : Nat)).size := by simp; omega
      rw [if_pos this]; simp
    have hbyte : ∀ l ∈ ls, l < 256 := by
      intro l hl
      have hp : 2 ^ lbits ≤ 2 ^ 7 := Nat.pow_le_pow_right (by decide) hlb
      rcases hall l hl with h | h <;> omega
    have hoob := Tree.buildTree_complete_no_oob lb s.codeTree Gen.pm2CodeTreeElements ls
      (by show 2 * ls.length ≤ 128; omega) hcomp hbyte (by show 2 * ls.length ≤ 65; omega)
      (by rw [hinv.codeSz]; decide)
    have hm0 : ¬ m = 0 := by omega
    refine ⟨{ s with bits := r', needOffsetTree := decide (ls.length ≥ 10) && !(ls.length == 29 && m == 0),
                     codeTree := (Tree.buildTree lb s.codeTree Gen.pm2CodeTreeElements ls).1 },
      ?_, g2, ?_, ?_, rfl⟩
    · unfold readCodeTree
      simp only [e1, e2, e3, hm0, if_false, g1, Res.ok_bind, htake, hoob.1, Bool.false_eq_true]
    · exact treeFor_lens _ _ _ (by show 2 * ls.length ≤ 128; omega) hcomp hbyte
        (by show 2 * ls.length ≤ 65; omega) (by rw [hinv.codeSz]; decide)
    · show (decide (ls.length ≥ 10) && !(ls.length == 29 && m == 0)) = codeSpecNeed (.lens m lbits ls)
      simp [codeSpecNeed, hm0]

/-! ### offset code lengths -/

/-- the used entries of a transmitted offset table, with their indices -/
def nzOf (ls : List Nat) (off : Nat) : List (Nat × Nat) :=
  (ls.zipIdx off).filter (fun e => decide (e.1 ≠ 0))

theorem offLenLoop_spec (ls : List Nat) (off : Nat) (lens : Array Nat) (single n : Nat)
    (hoff : off + ls.length ≤ 8) (hall : ∀ l ∈ ls, l < 8) (r : Bits) (rest : List Bool)
    (hr : SV.R r (ls.flatMap (bitsN 3) ++ rest)) :
    ∃ lens' r', offLenLoop ls.length off lens single n r
        = .ok (some (lens', (match (nzOf ls off).getLast? with | some e => e.2 | none => single),
                 n + (nzOf ls off).length), r') ∧
      SV.R r' rest ∧ lens'.size = lens.size ∧
      ∀ j, lens'[j]? = if off ≤ j ∧ j < off + ls.length ∧ j < lens.size then ls[j - off]? else lens[j]? := by
  induction ls generalizing off lens single n r with
  | nil =>
    refine ⟨lens, r, by simp [offLenLoop, nzOf], by simpa using hr, rfl, ?_⟩
    intro j
    have : ¬ (off ≤ j ∧ j < off + ([] : List Nat).length ∧ j < lens.size) := by simp; omega
    rw [if_neg this]
  | cons l ls ih =>
    rw [List.flatMap_cons, List.append_assoc] at hr
    have hl := hall l (List.mem_cons_self ..)
    obtain ⟨e1, r1⟩ := SV.read r 3 l _ hr (by decide) (by omega)
    simp only [List.length_cons] at hoff
    have hall' : ∀ x ∈ ls, x < 8 := fun x hx => hall x (List.mem_cons_of_mem _ hx)
    have hidx : ∀ (lens' : Array Nat), lens'.size = (lens.setIfInBounds off l).size →
        (∀ j, lens'[j]? = if off + 1 ≤ j ∧ j < off + 1 + ls.length ∧ j < (lens.setIfInBounds off l).size
          then ls[j - (off + 1)]? else (lens.setIfInBounds off l)[j]?) →
        ∀ j, lens'[j]? = if off ≤ j ∧ j < off + (l :: ls).length ∧ j < lens.size
          then (l :: ls)[j - off]? else lens[j]? := by
      intro lens' _ g4 j
      rw [g4 j]
      simp only [Array.size_setIfInBounds, List.length_cons, Array.getElem?_setIfInBounds]
      by_cases hj : j = off
      · subst hj
        have c1 : ¬ (j + 1 ≤ j ∧ j < j + 1 + ls.length ∧ j < lens.size) := by omega
        rw [if_neg c1]
        by_cases hsz : j < lens.size
        · have c2 : j ≤ j ∧ j < j + (ls.length + 1) ∧ j < lens.size := ⟨Nat.le_refl _, by omega, hsz⟩
          simp only [if_true, hsz, c2, and_self, Nat.sub_self, List.getElem?_cons_zero]
        · have c2 : ¬ (j ≤ j ∧ j < j + (ls.length + 1) ∧ j < lens.size) := by omega
          simp only [if_true, hsz, if_false, c2]
          simp [hsz]
      · by_cases hc : off + 1 ≤ j ∧ j < off + 1 + ls.length ∧ j < lens.size
        · have c2 : off ≤ j ∧ j < off + (ls.length + 1) ∧ j < lens.size := by omega
          rw [if_pos hc, if_pos c2]
          have : j - off = (j - (off + 1)) + 1 := by omega
          rw [this, List.getElem?_cons_succ]
        · have c2 : ¬ (off ≤ j ∧ j < off + (ls.length + 1) ∧ j < lens.size) := by omega
          rw [if_neg hc, if_neg c2, if_neg (fun e => hj e.symm)]
    by_cases hl0 : l = 0
    · subst hl0
      obtain ⟨lens', r', g1, g2, g3, g4⟩ := ih (off + 1) (lens.setIfInBounds off 0) single n (by omega)
        hall' _ r1
      refine ⟨lens', r', ?_, g2, by rw [g3]; simp, hidx lens' g3 g4⟩
      have hnz : nzOf (0 :: ls) off = nzOf ls (off + 1) := by
        simp [nzOf, List.zipIdx_cons]
      simp only [List.length_cons, offLenLoop, e1, (by omega : off < 8), if_true, ne_eq,
        not_true_eq_false, if_false]
      rw [hnz]
      exact g1
    · obtain ⟨lens', r', g1, g2, g3, g4⟩ := ih (off + 1) (lens.setIfInBounds off l) off (n + 1) (by omega)
        hall' _ r1
      refine ⟨lens', r', ?_, g2, by rw [g3]; simp, hidx lens' g3 g4⟩
      have hnz : nzOf (l :: ls) off = (l, off) :: nzOf ls (off + 1) := by
        simp [nzOf, List.zipIdx_cons, hl0]
      simp only [List.length_cons, offLenLoop, e1, (by omega : off < 8), if_true, hl0, ne_eq,
        not_false_eq_true]
      have hA : (match (nzOf ls (off + 1)).getLast? with | some e => e.2 | none => off)
          = (match ((l, off) :: nzOf ls (off + 1)).getLast? with | some e => e.2 | none => single) := by
        rw [List.getLast?_cons]
        cases (nzOf ls (off + 1)).getLast? <;> rfl
      have hB : n + 1 + (nzOf ls (off + 1)).length = n + ((l, off) :: nzOf ls (off + 1)).length := by
        simp; omega
      rw [hnz, g1, hA, hB]

theorem offTable_eq (ls : List Nat) : offTable ls =
    match nzOf ls 0 with
    | [e] => some (.single e.2)
    | _ => if Spec.Canon.complete ls then some (.lens ls) else none := rfl

theorem nzOf_idx (ls : List Nat) (e : Nat × Nat) (h : e ∈ nzOf ls 0) : e.2 < ls.length := by
  unfold nzOf at h
  have := (List.mem_filter.mp h).1
  rw [List.mem_zipIdx_iff_getElem?] at this
  exact (List.getElem?_eq_some_iff.mp this).1

/-- `read_offset_tree` reads a transmitted offset table and builds its tree (when the table is
usable: one used entry, or a complete code) -/
theorem readOffsetTree_spec (s : St) (hinv : Pm2.Inv s) (ls : List Nat) (hlen : ls.length ≤ 8)
    (hall : ∀ l ∈ ls, l < 8) (hneed : s.needOffsetTree = true) (rest : List Bool)
    (hr : SV.R s.bits (ls.flatMap (bitsN 3) ++ rest)) :
    ∃ s', readOffsetTree s ls.length = .ok s' ∧ SV.R s'.bits rest ∧
      (∀ ot, offTable ls = some ot → TreeFor SV s'.offsetTree ot) ∧ s'.codeTree = s.codeTree ∧
      s'.needOffsetTree = true := by
  obtain ⟨lens', r', g1, g2, g3, g4⟩ := offLenLoop_spec ls 0 (Array.replicate 8 0) 0 0 (by omega) hall
    _ rest hr
  have htake : lens'.toList.take ls.length = ls := by
    apply take_of_getElem? lens' ls (by rw [g3]; simp; omega)
    intro j hj
    rw [g4 j]
    have : 0 ≤ j ∧ j < 0 + ls.length ∧ j < (Array.replicate 8 (0 : Nat)).size := by simp; omega
    rw [if_pos this]; simp
  unfold readOffsetTree
  simp only [hneed, Bool.not_true, Bool.false_eq_true, if_false, g1, Res.ok_bind, Nat.zero_add]
  rw [offTable_eq]
  have hbt := Tree.buildTree_safe lb s.offsetTree Gen.pm2OffsetTreeElements ls hinv.offFwd
    (by rw [hinv.offSz]; decide) (by rw [hinv.offSz]; decide) (by rw [hinv.offSz]; decide)
  have hgen : (nzOf ls 0).length ≠ 1 →
      (∀ ot, (if Spec.Canon.complete ls then some (Table.lens ls) else none) = some ot →
        TreeFor SV (Tree.buildTree lb s.offsetTree Gen.pm2OffsetTreeElements ls).1 ot) := by
    intro _ ot hot
    split at hot
    · rename_i hc
      cases hot
      exact treeFor_lens _ _ _ (by show 2 * ls.length ≤ 128; omega) hc
        (fun l hl => by have := hall l hl; omega) (by show 2 * ls.length ≤ 17; omega)
        (by rw [hinv.offSz]; decide)
    · cases hot
  rcases hf : nzOf ls 0 with _ | ⟨e, _ | ⟨e2, tl⟩⟩
  · simp only [hf, List.length_nil, (by decide : ¬ (0 : Nat) = 1), if_false, htake, hbt.2.2,
      Bool.false_eq_true]
    refine ⟨_, rfl, g2, ?_, rfl, rfl⟩
    intro ot hot
    exact hgen (by rw [hf]; decide) ot hot
  · simp only [hf, List.length_cons, List.length_nil, Nat.zero_add, if_true, List.getLast?_singleton]
    refine ⟨_, rfl, g2, ?_, rfl, rfl⟩
    intro ot hot
    cases hot
    have := nzOf_idx ls e (by rw [hf]; simp)
    exact treeFor_single SV _ _ (by show e.2 < 128; omega) (by rw [hinv.offSz]; decide)
  · simp only [hf, List.length_cons, (by omega : ¬ tl.length + 1 + 1 = 1), if_false, htake, hbt.2.2,
      Bool.false_eq_true]
    refine ⟨_, rfl, g2, ?_, rfl, rfl⟩
    intro ot hot
    exact hgen (by rw [hf]; simp) ot hot

theorem readOffsetTree_skip (s : St) (n : Nat) (hneed : s.needOffsetTree = false) :
    readOffsetTree s n = .ok s := by
  unfold readOffsetTree
  simp [hneed]

/-! ### what is transmitted at a rebuild point -/

/-- the pieces of what is transmitted at a rebuild point -/
structure RbParts (est : EncSt) (rbd : Rebuild) (rs : List Rebuild) (bits : List Bool) (est' : EncSt) : Prop where
  hd : est.rebuilds = rbd :: rs
  wf : ∀ cs, rbd.code = some cs → codeSpecWf cs = true
  flag0 : est.phase = 0 → rbd.code.isSome = true
  flag12 : est.phase = 1 ∨ est.phase = 2 → rbd.code = none
  offOk : (est'.need && (decide (est.phase ≤ 3) || rbd.code.isSome)) = true →
    rbd.off.length = numOffsets est.phase ∧ ∀ l ∈ rbd.off, l < 8
  bits : bits = (if est.phase < 3 then [] else [rbd.code.isSome]) ++
    (match rbd.code with | some cs => codeSpecBits cs | none => []) ++
    (if (est'.need && (decide (est.phase ≤ 3) || rbd.code.isSome)) = true then rbd.off.flatMap (bitsN 3) else [])
  code : est'.code = (match rbd.code with | some cs => codeSpecTable cs | none => est.code)
  need : est'.need = (match rbd.code with | some cs => codeSpecNeed cs | none => est.need)
  off : est'.off = (if (est'.need && (decide (est.phase ≤ 3) || rbd.code.isSome)) = true then offTable rbd.off else est.off)
  phase : est'.phase = est.phase + 1
  nextAt : est'.nextAt = est.nextAt + phaseGap est.phase
  out : est'.out = est.out
  mtf : est'.mtf = est.mtf
  rest : est'.rebuilds = rs

theorem offOk_of (A : Bool) (off : List Nat) (n : Nat)
    (c1 : ¬ (A && off.length != n) = true) (c2 : ¬ (A && !off.all fun l => decide (l < 8)) = true)
    (hA : A = true) : off.length = n ∧ ∀ l ∈ off, l < 8 := by
  subst hA
  simp only [Bool.true_and, bne_iff_ne, ne_eq, Decidable.not_not, Bool.not_eq_true', Bool.not_eq_false,
    List.all_eq_true, decide_eq_true_eq] at c1 c2
  exact ⟨c1, c2⟩

theorem rebuildBits_parts (est : EncSt) (rb : List Bool) (est' : EncSt)
    (h : rebuildBits est = some (rb, est')) : ∃ rbd rs, RbParts est rbd rs rb est' := by
  unfold rebuildBits at h
  split at h
  · cases h
  rename_i rbd rs hrs
  refine ⟨rbd, rs, ?_⟩
  cases hcode : rbd.code with
  | none =>
    simp only [hcode, Option.isSome_none, Option.isNone_none, Bool.false_eq_true, if_false, if_true,
      Bool.not_true, Bool.or_false] at h
    by_cases hph : est.phase < 3
    · simp only [hph, if_true] at h
      by_cases h0 : est.phase = 0
      · simp only [h0, if_true] at h
        cases h
      · simp only [h0, if_false] at h
        split at h
        · cases h
        split at h
        · cases h
        rename_i c1 c2
        simp only [Option.some.injEq, Prod.mk.injEq] at h
        obtain ⟨q1, q2⟩ := h
        subst q1 q2
        refine ⟨hrs, by simp [hcode], fun h => absurd h h0, fun _ => hcode, ?_, ?_, by simp [hcode],
          by simp [hcode], by simp [hcode], rfl, rfl, rfl, rfl, rfl⟩
        · intro hs
          simp only [hcode, Option.isSome_none, Bool.or_false] at hs
          exact offOk_of _ _ _ c1 c2 hs
        · simp [hcode, hph]
    · simp only [hph, if_false] at h
      split at h
      · cases h
      split at h
      · cases h
      rename_i c1 c2
      simp only [Option.some.injEq, Prod.mk.injEq] at h
      obtain ⟨q1, q2⟩ := h
      subst q1 q2
      refine ⟨hrs, by simp [hcode], fun h => by omega, fun h => by omega, ?_, ?_, by simp [hcode],
        by simp [hcode], by simp [hcode], rfl, rfl, rfl, rfl, rfl⟩
      · intro hs
        simp only [hcode, Option.isSome_none, Bool.or_false] at hs
        exact offOk_of _ _ _ c1 c2 hs
      · simp [hcode, hph]
  | some cs =>
    simp only [hcode, Option.isSome_some, Option.isNone_some, Bool.false_eq_true, if_false, if_true,
      Bool.or_true, Bool.and_true] at h
    have hfl : ∃ fb, (if est.phase < 3 then (if est.phase = 0 then some ([] : List Bool) else none)
        else some [true]) = some fb ∧ fb = (if est.phase < 3 then [] else [true]) ∧
        (est.phase = 1 ∨ est.phase = 2 → False) := by
      by_cases hph : est.phase < 3
      · by_cases h0 : est.phase = 0
        · exact ⟨[], by simp [hph, h0], by simp [hph], by omega⟩
        · simp only [hph, h0, if_true, if_false] at h
          cases h
      · exact ⟨[true], by simp [hph], by simp [hph], by omega⟩
    obtain ⟨fb, hfb, hfbe, hno⟩ := hfl
    rw [hfb] at h
    simp only at h
    split at h
    · cases h
    rename_i hwf
    split at h
    · cases h
    split at h
    · cases h
    rename_i c1 c2
    simp only [Option.some.injEq, Prod.mk.injEq] at h
    obtain ⟨q1, q2⟩ := h
    subst q1 q2
    refine ⟨hrs, ?_, fun _ => by simp [hcode], fun h => (hno h).elim, ?_, ?_, by simp [hcode],
      by simp [hcode], by simp [hcode], rfl, rfl, rfl, rfl, rfl⟩
    · intro cs' hc
      rw [hcode] at hc; cases hc
      simpa using hwf
    · intro hs
      simp only [hcode, Option.isSome_some, Bool.or_true, Bool.and_true] at hs
      exact offOk_of _ _ _ c1 c2 hs
    · simp [hcode, hfbe]


/-! ### `rebuild_tree` -/

/-- the decoder's tables are those of the encoder state -/
structure TabRel (s : St) (est : EncSt) : Prop where
  inv : Pm2.Inv s
  code : TreeFor SV s.codeTree est.code
  off : ∀ ot, est.off = some ot → TreeFor SV s.offsetTree ot
  need : s.needOffsetTree = est.need
  state : s.treeState = stateOf est.phase

/-- reading an optional code table -/
theorem optCode_spec (s : St) (est : EncSt) (ht : TabRel s est) (code : Option CodeSpec)
    (rest : List Bool)
    (hr : SV.R s.bits ((match (generalizing := false) code with | some cs => codeSpecBits cs | none => []) ++ rest))
    (hwf : ∀ cs, code = some cs → codeSpecWf cs = true) :
    ∃ s', (match (generalizing := false) code with | some _ => readCodeTree s | none => .ok s) = .ok s' ∧ SV.R s'.bits rest ∧
      TreeFor SV s'.codeTree (match (generalizing := false) code with | some cs => codeSpecTable cs | none => est.code) ∧
      s'.needOffsetTree = (match (generalizing := false) code with | some cs => codeSpecNeed cs | none => est.need) ∧
      s'.offsetTree = s.offsetTree := by
  cases code with
  | none => exact ⟨s, rfl, by simpa using hr, ht.code, ht.need, rfl⟩
  | some cs => exact readCodeTree_spec s ht.inv cs (hwf cs rfl) rest hr

/-- reading an offset table when (and only when) one is transmitted -/
theorem optOff_spec (s : St) (hinv : Pm2.Inv s) (send : Bool) (ls : List Nat) (n : Nat)
    (hok : send = true → ls.length = n ∧ ∀ l ∈ ls, l < 8) (hn : n ≤ 8)
    (hneed : send = true → s.needOffsetTree = true) (rest : List Bool)
    (hr : SV.R s.bits ((if send = true then ls.flatMap (bitsN 3) else []) ++ rest)) :
    ∃ s', (if send = true then readOffsetTree s n else .ok s) = .ok s' ∧ SV.R s'.bits rest ∧
      (∀ ot, (if send = true then offTable ls else none) = some ot → TreeFor SV s'.offsetTree ot) ∧
      (send = false → s' = s) ∧ s'.codeTree = s.codeTree ∧ s'.needOffsetTree = s.needOffsetTree := by
  cases send with
  | false => exact ⟨s, rfl, by simpa using hr, by simp, fun _ => rfl, rfl, rfl⟩
  | true =>
    obtain ⟨hl, hall⟩ := hok rfl
    subst hl
    obtain ⟨s', e, g1, g2, g3, g4⟩ := readOffsetTree_spec s hinv ls hn hall (hneed rfl) rest
      (by simpa using hr)
    exact ⟨s', by simpa using e, g1, by simpa using g2, by simp, g3, by rw [g4, hneed rfl]⟩

theorem numOffsets_le (ph : Nat) : numOffsets ph ≤ 8 := by
  unfold numOffsets
  repeat' split
  all_goals omega

/-- the call of `read_offset_tree` at a rebuild point -/
theorem offCall (s s1 : St) (est est' : EncSt) (rbd : Rebuild) (rs : List Rebuild) (rb : List Bool)
    (P : RbParts est rbd rs rb est') (ht : TabRel s est) (hinv1 : Pm2.Inv s1)
    (hcode1 : TreeFor SV s1.codeTree est'.code) (hneed1 : s1.needOffsetTree = est'.need)
    (hoff1 : s1.offsetTree = s.offsetTree)
    (hsend : (est'.need && (decide (est.phase ≤ 3) || rbd.code.isSome)) = est'.need)
    (rest : List Bool)
    (hr1 : SV.R s1.bits ((if (est'.need && (decide (est.phase ≤ 3) || rbd.code.isSome)) = true
      then rbd.off.flatMap (bitsN 3) else []) ++ rest)) :
    ∃ s2, readOffsetTree s1 (numOffsets est.phase) = .ok s2 ∧ SV.R s2.bits rest ∧
      TreeFor SV s2.codeTree est'.code ∧ (∀ ot, est'.off = some ot → TreeFor SV s2.offsetTree ot) ∧
      s2.needOffsetTree = est'.need := by
  have hoffeq := P.off
  have hok := P.offOk
  rw [hsend] at hr1 hoffeq hok
  cases hn : est'.need with
  | false =>
    rw [hn] at hr1 hoffeq hneed1
    simp only [Bool.false_eq_true, if_false, List.nil_append] at hr1 hoffeq
    refine ⟨s1, readOffsetTree_skip s1 _ hneed1, hr1, hcode1, ?_, by rw [hneed1]⟩
    intro ot hot
    rw [hoff1]
    exact ht.off ot (by rw [← hoffeq]; exact hot)
  | true =>
    rw [hn] at hr1 hoffeq hneed1 hok
    simp only [if_true] at hr1 hoffeq
    obtain ⟨hl, hall⟩ := hok rfl
    rw [← hl]
    obtain ⟨s2, e, g1, g2, g3, g4⟩ := readOffsetTree_spec s1 hinv1 rbd.off
      (by rw [hl]; exact numOffsets_le _) hall hneed1 rest hr1
    exact ⟨s2, e, g1, by rw [g3]; exact hcode1, fun ot hot => g2 ot (by rw [← hoffeq]; exact hot),
      by rw [g4]⟩

/-- **D.** `rebuild_tree` reads what `rebuildBits` transmits, and ends with the tables of the
encoder state after the rebuild point -/
theorem rebuildTree_parts (s : St) (est : EncSt) (rb : List Bool) (est' : EncSt)
    (rbd : Rebuild) (rs : List Rebuild) (P : RbParts est rbd rs rb est') (ht : TabRel s est)
    (rest : List Bool) (hr : SV.R s.bits (rb ++ rest)) :
    ∃ s', rebuildTree s = .ok s' ∧ SV.R s'.bits rest ∧ TabRel s' est' := by
  have hbits := P.bits
  subst hbits
  -- it suffices to run the decoder: the invariants of the result follow
  suffices hmain : ∃ s', rebuildTree s = .ok s' ∧ SV.R s'.bits rest ∧
      TreeFor SV s'.codeTree est'.code ∧ (∀ ot, est'.off = some ot → TreeFor SV s'.offsetTree ot) ∧
      s'.needOffsetTree = est'.need by
    obtain ⟨s', e, g1, g2, g3, g4⟩ := hmain
    refine ⟨s', e, g1, ⟨(Pm2.rebuildTree_safe s ht.inv).2 s' e, g2, g3, g4, ?_⟩⟩
    rw [P.phase]
    exact (rebuildTree_next s s' est.phase ht.state e).1
  obtain ⟨sb, sts, srr, sring, spos, shist, sct, sneed, sot⟩ := s
  have hstate : sts = stateOf est.phase := ht.state
  by_cases h0 : est.phase = 0
  · -- start: code table, 5 offset lengths
    have hst : sts = .unbuilt := by rw [hstate, h0]; rfl
    subst hst
    have hsome := P.flag0 h0
    obtain ⟨cs, hcs⟩ := Option.isSome_iff_exists.mp hsome
    have hcode := P.code; have hneed := P.need
    rw [hcs] at hcode hneed hr
    simp only [h0, Nat.lt_irrefl, (by decide : (0 : Nat) < 3), if_true, List.nil_append,
      List.append_assoc] at hr
    obtain ⟨s1, e1, r1, c1, n1, o1⟩ := readCodeTree_spec _ ht.inv cs (P.wf cs hcs) _ hr
    obtain ⟨s2, e2, r2, c2, o2, n2⟩ := offCall _ s1 est est' rbd rs _ P ht
      ((Pm2.readCodeTree_safe _ ht.inv).2 s1 e1) (by rw [hcode]; exact c1) (by rw [hneed]; exact n1) o1
      (by simp [h0]) rest (by simpa [h0] using r1)
    rw [h0] at e2
    refine ⟨{ s2 with treeState := .build1, rebuildRemaining := 1024 }, ?_, r2, c2, o2, n2⟩
    unfold rebuildTree
    simp only [e1, Res.ok_bind]
    rw [show numOffsets 0 = 5 from rfl] at e2
    rw [e2]; rfl
  by_cases h12 : est.phase = 1 ∨ est.phase = 2
  · -- 1024, 2048: offset lengths only
    have hnone := P.flag12 h12
    have hcode := P.code; have hneed := P.need
    rw [hnone] at hcode hneed
    have hlt : est.phase < 3 := by omega
    have hpre : ((if est.phase < 3 then [] else [rbd.code.isSome]) ++
        (match rbd.code with | some cs => codeSpecBits cs | none => [])) = [] := by
      rw [hnone]; simp [hlt]
    rw [hpre, List.nil_append] at hr
    rcases h12 with h1 | h2
    · have hst : sts = .build1 := by rw [hstate, h1]; rfl
      subst hst
      obtain ⟨s2, e2, r2, c2, o2, n2⟩ := offCall _ _ est est' rbd rs _ P ht ht.inv
        (by rw [hcode]; exact ht.code) (by rw [hneed]; exact ht.need) rfl
        (by simp [(by omega : est.phase ≤ 3)]) rest hr
      refine ⟨{ s2 with treeState := .build2, rebuildRemaining := 1024 }, ?_, r2, c2, o2, n2⟩
      unfold rebuildTree
      rw [h1] at e2
      simp only
      rw [show numOffsets 1 = 6 from rfl] at e2
      rw [e2]; rfl
    · have hst : sts = .build2 := by rw [hstate, h2]; rfl
      subst hst
      obtain ⟨s2, e2, r2, c2, o2, n2⟩ := offCall _ _ est est' rbd rs _ P ht ht.inv
        (by rw [hcode]; exact ht.code) (by rw [hneed]; exact ht.need) rfl
        (by simp [(by omega : est.phase ≤ 3)]) rest hr
      refine ⟨{ s2 with treeState := .build3, rebuildRemaining := 2048 }, ?_, r2, c2, o2, n2⟩
      unfold rebuildTree
      rw [h2] at e2
      simp only
      rw [show numOffsets 2 = 7 from rfl] at e2
      rw [e2]; rfl
  · -- 4096 and later: a flag bit, then an optional code table
    have hge : ¬ est.phase < 3 := by omega
    simp only [hge, if_false, List.append_assoc, List.cons_append, List.nil_append] at hr
    obtain ⟨eb, rb1⟩ := SV.bit _ _ _ hr
    by_cases h3 : est.phase = 3
    · have hst : sts = .build3 := by rw [hstate, h3]; rfl
      subst hst
      have hinv0 : Pm2.Inv (⟨sb.readBit.2, .build3, srr, sring, spos, shist, sct, sneed, sot⟩ : St) :=
        ht.inv.withBits (Bits.readBit_wf _ ht.inv.bits) rfl rfl rfl rfl rfl
      have ht0 : TabRel _ est := ⟨hinv0, ht.code, ht.off, ht.need, ht.state⟩
      obtain ⟨s1, e1, r1, c1, n1, o1⟩ := optCode_spec _ est ht0 rbd.code _ rb1 P.wf
      have hinv1 : Pm2.Inv s1 := by
        cases hc : rbd.code with
        | none => rw [hc] at e1; cases e1; exact hinv0
        | some cs => rw [hc] at e1; exact (Pm2.readCodeTree_safe _ hinv0).2 s1 e1
      rw [← P.code] at c1
      rw [← P.need] at n1
      obtain ⟨s2, e2, r2, c2, o2, n2⟩ := offCall _ s1 est est' rbd rs _ P ht hinv1 c1 n1 o1
        (by simp [h3]) rest r1
      refine ⟨{ s2 with treeState := .continuing, rebuildRemaining := 4096 }, ?_, r2, c2, o2, n2⟩
      rw [h3] at e2
      unfold rebuildTree
      simp only [eb]
      rw [show numOffsets 3 = 8 from rfl] at e2
      cases hc : rbd.code with
      | none =>
        rw [hc] at e1
        simp only [Option.isSome_none, Bool.false_eq_true, if_false,
          (by decide : ¬ (some 0 : Option Nat) = some 1)]
        cases e1
        simp only [Res.ok_bind]
        rw [e2]; rfl
      | some cs =>
        rw [hc] at e1
        simp only [Option.isSome_some, if_true]
        simp only at e1
        rw [e1]
        simp only [Res.ok_bind]
        rw [e2]; rfl
    · have h4 : 4 ≤ est.phase := by omega
      have hst : sts = .continuing := by
        rw [hstate]; unfold stateOf
        repeat' split
        all_goals first | rfl | omega
      subst hst
      have hinv0 : Pm2.Inv (⟨sb.readBit.2, .continuing, srr, sring, spos, shist, sct, sneed, sot⟩ : St) :=
        ht.inv.withBits (Bits.readBit_wf _ ht.inv.bits) rfl rfl rfl rfl rfl
      have ht0 : TabRel _ est := ⟨hinv0, ht.code, ht.off, ht.need, ht.state⟩
      obtain ⟨s1, e1, r1, c1, n1, o1⟩ := optCode_spec _ est ht0 rbd.code _ rb1 P.wf
      have hinv1 : Pm2.Inv s1 := by
        cases hc : rbd.code with
        | none => rw [hc] at e1; cases e1; exact hinv0
        | some cs => rw [hc] at e1; exact (Pm2.readCodeTree_safe _ hinv0).2 s1 e1
      rw [← P.code] at c1
      rw [← P.need] at n1
      have hnum8 : numOffsets est.phase = 8 := by
        unfold numOffsets
        repeat' split
        all_goals omega
      have hle3 : ¬ est.phase ≤ 3 := by omega
      unfold rebuildTree
      simp only [eb]
      cases hc : rbd.code with
      | none =>
        rw [hc] at e1 r1
        cases e1
        simp only [Option.isSome_none, Bool.false_eq_true, if_false,
          (by decide : ¬ (some 0 : Option Nat) = some 1), Res.ok_bind, hle3, decide_false,
          Bool.or_false, Bool.and_false, List.nil_append] at r1 ⊢
        refine ⟨_, rfl, r1, c1, ?_, n1⟩
        intro ot hot
        have := P.off
        simp only [hc, Option.isSome_none, hle3, decide_false, Bool.or_false, Bool.and_false,
          Bool.false_eq_true, if_false] at this
        exact ht.off ot (by rw [← this]; exact hot)
      | some cs =>
        rw [hc] at e1
        simp only at e1
        obtain ⟨s2, e2, r2, c2, o2, n2⟩ := offCall _ s1 est est' rbd rs _ P ht hinv1 c1 n1 o1
          (by simp [hc]) rest r1
        rw [hnum8] at e2
        simp only [Option.isSome_some, if_true, e1, Res.ok_bind, e2]
        exact ⟨{ s2 with rebuildRemaining := 4096 }, rfl, r2, c2, o2, n2⟩

theorem rebuildTree_spec (s : St) (est : EncSt) (rb : List Bool) (est' : EncSt)
    (h : rebuildBits est = some (rb, est')) (ht : TabRel s est) (rest : List Bool)
    (hr : SV.R s.bits (rb ++ rest)) :
    ∃ s', rebuildTree s = .ok s' ∧ SV.R s'.bits rest ∧ TabRel s' est' := by
  obtain ⟨rbd, rs, P⟩ := rebuildBits_parts est rb est' h
  exact rebuildTree_parts s est rb est' rbd rs P ht rest hr

/-- what is transmitted at a rebuild point does not depend on the output so far -/
theorem RbParts.withOut {est est' : EncSt} {rbd : Rebuild} {rs : List Rebuild} {rb : List Bool}
    (P : RbParts est rbd rs rb est') (o : Array UInt8) (m : List UInt8) :
    RbParts { est with out := o, mtf := m } rbd rs rb { est' with out := o, mtf := m } :=
  ⟨P.hd, P.wf, P.flag0, P.flag12, P.offOk, P.bits, P.code, P.need, P.off, P.phase, P.nextAt, rfl, rfl,
   P.rest⟩

/-! ### non-vacuity -/

/-- the first rebuild point of a stream: a 12-symbol code table and five offset lengths -/
def exRb : Rebuild := { code := some (.lens 1 2 [2, 0, 0, 2, 0, 0, 0, 0, 2, 2, 0, 0]), off := [1, 1, 0, 0, 0] }

example : (rebuildBits { rebuilds := [exRb] }).map (fun r => (r.1.length, r.2.phase, r.2.nextAt, r.2.need))
    = some (5 + 3 + 3 + 12 * 2 + 5 * 3, 1, 1024, true) := by decide +kernel

example : (offTable [0, 3, 0, 0, 0]).isSome = true := by decide
example : (offTable [1, 2, 2, 0, 0]).isSome = true := by decide
example : (offTable [1, 2, 0, 0, 0]).isNone = true := by decide

end LhasaV.PmRT
