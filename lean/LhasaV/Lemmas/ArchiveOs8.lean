import LhasaV.Model.Header
/-!
# MS-DOS time stamps: an inverse of `Header.dosTimeUTC`

Level-0/1 headers carry an MS-DOS stamp (two-second resolution, years 1980–2107, local time —
the tool model runs under `TZ=UTC`: `Header.dosTimeUTC` is `decode_ftime` + `mktime`).  To WRITE
such a header for a given Unix time one needs the stamp: `unixToDos` (calendar arithmetic:
`civilFromDays`, the inverse of the model's `daysFromCivil`).

**`dosTime_inverse`**: for every even `t` from 1980-01-01 00:00:00 (315532800) below 2³²,
`dosTimeUTC (unixToDos t) = t`; also for `t = 0` ("no time").  The calendar part — for each of
the 46 059 days of that range, `civilFromDays` yields a date in 1980–2107 that `daysFromCivil`
maps back — is checked by kernel evaluation in twelve chunks (`civ_chunk_*`), the rest is linear
arithmetic.  `DosTimeOk t` is the (decidable) statement for a single `t`.
-/
namespace LhasaV.ArchiveOs
open LhasaV LhasaV.Header

/-- (year, month 1–12, day 1–31) of day `z` since 1970-01-01 -/
def civilFromDays (z : Nat) : Nat × Nat × Nat :=
  let z := z + 719468
  let era := z / 146097
  let doe := z - era * 146097
  let yoe := (doe - doe / 1460 + doe / 36524 - doe / 146096) / 365
  let doy := doe - (365 * yoe + yoe / 4 - yoe / 100)
  let mp := (5 * doy + 2) / 153
  let d := doy - (153 * mp + 2) / 5 + 1
  let m := if mp < 10 then mp + 3 else mp - 9
  (if m ≤ 2 then yoe + era * 400 + 1 else yoe + era * 400, m, d)

/-- the MS-DOS stamp of a Unix time (UTC); 0 for 0 -/
def unixToDos (t : Nat) : Nat :=
  if t = 0 then 0 else
  let c := civilFromDays (t / 86400)
  let r := t % 86400
  (c.1 - 1980) * 33554432 + c.2.1 * 2097152 + c.2.2 * 65536 + (r / 3600) * 2048 + (r % 3600 / 60) * 32 + r % 60 / 2

/-- the time survives being written as an MS-DOS stamp -/
def DosTimeOk (t : Nat) : Prop := dosTimeUTC (unixToDos t) = t

instance (t : Nat) : Decidable (DosTimeOk t) := inferInstanceAs (Decidable (dosTimeUTC (unixToDos t) = t))

/-! ## the calendar check -/

/-- day `z` falls in 1980–2107 and `daysFromCivil` maps its date back -/
def civOk (z : Nat) : Bool :=
  let c := civilFromDays z
  decide (1980 ≤ c.1 ∧ c.1 ≤ 2107 ∧ 1 ≤ c.2.1 ∧ c.2.1 ≤ 12 ∧ 1 ≤ c.2.2 ∧ c.2.2 ≤ 31 ∧
    daysFromCivil c.1 c.2.1 c.2.2 = z)

def civRange (lo : Nat) : Nat → Bool
  | 0 => true
  | n+1 => civOk lo && civRange (lo + 1) n

theorem civRange_sound (lo n : Nat) (h : civRange lo n = true) (z : Nat) (h1 : lo ≤ z) (h2 : z < lo + n) :
    civOk z = true := by
  induction n generalizing lo with
  | zero => omega
  | succ n ih =>
    simp only [civRange, Bool.and_eq_true] at h
    by_cases hz : z = lo
    · subst hz; exact h.1
    · exact ih (lo + 1) h.2 (by omega) (by omega)

theorem civ_chunk_0 : civRange 3652 4096 = true := by decide +kernel
theorem civ_chunk_1 : civRange 7748 4096 = true := by decide +kernel
theorem civ_chunk_2 : civRange 11844 4096 = true := by decide +kernel
theorem civ_chunk_3 : civRange 15940 4096 = true := by decide +kernel
theorem civ_chunk_4 : civRange 20036 4096 = true := by decide +kernel
theorem civ_chunk_5 : civRange 24132 4096 = true := by decide +kernel
theorem civ_chunk_6 : civRange 28228 4096 = true := by decide +kernel
theorem civ_chunk_7 : civRange 32324 4096 = true := by decide +kernel
theorem civ_chunk_8 : civRange 36420 4096 = true := by decide +kernel
theorem civ_chunk_9 : civRange 40516 4096 = true := by decide +kernel
theorem civ_chunk_10 : civRange 44612 4096 = true := by decide +kernel
theorem civ_chunk_11 : civRange 48708 1003 = true := by decide +kernel

/-- every day from 1980-01-01 to the last day a 32-bit time reaches (2106-02-07) -/
theorem civOk_range (z : Nat) (h1 : 3652 ≤ z) (h2 : z < 49711) : civOk z = true := by
  by_cases a0 : z < 7748
  · exact civRange_sound _ _ civ_chunk_0 z h1 (by omega)
  by_cases a1 : z < 11844
  · exact civRange_sound _ _ civ_chunk_1 z (by omega) (by omega)
  by_cases a2 : z < 15940
  · exact civRange_sound _ _ civ_chunk_2 z (by omega) (by omega)
  by_cases a3 : z < 20036
  · exact civRange_sound _ _ civ_chunk_3 z (by omega) (by omega)
  by_cases a4 : z < 24132
  · exact civRange_sound _ _ civ_chunk_4 z (by omega) (by omega)
  by_cases a5 : z < 28228
  · exact civRange_sound _ _ civ_chunk_5 z (by omega) (by omega)
  by_cases a6 : z < 32324
  · exact civRange_sound _ _ civ_chunk_6 z (by omega) (by omega)
  by_cases a7 : z < 36420
  · exact civRange_sound _ _ civ_chunk_7 z (by omega) (by omega)
  by_cases a8 : z < 40516
  · exact civRange_sound _ _ civ_chunk_8 z (by omega) (by omega)
  by_cases a9 : z < 44612
  · exact civRange_sound _ _ civ_chunk_9 z (by omega) (by omega)
  by_cases a10 : z < 48708
  · exact civRange_sound _ _ civ_chunk_10 z (by omega) (by omega)
  · exact civRange_sound _ _ civ_chunk_11 z (by omega) (by omega)

/-! ## packing and unpacking the stamp -/

theorem dosToTm_pack (Y m d h mi s2 : Nat) (hY : Y < 128) (hm : m < 16) (hd : d < 32) (hh : h < 32)
    (hmi : mi < 64) (hs : s2 < 32) :
    dosToTm (Y * 33554432 + m * 2097152 + d * 65536 + h * 2048 + mi * 32 + s2) =
      { sec := 2 * s2, min := mi, hour := h, mday := d, mon := (m : Int) - 1, year := 1980 + Y } := by
  unfold dosToTm
  have e1 : (Y * 33554432 + m * 2097152 + d * 65536 + h * 2048 + mi * 32 + s2) * 2 % 64 = 2 * s2 := by omega
  have e2 : (Y * 33554432 + m * 2097152 + d * 65536 + h * 2048 + mi * 32 + s2) / 32 % 64 = mi := by omega
  have e3 : (Y * 33554432 + m * 2097152 + d * 65536 + h * 2048 + mi * 32 + s2) / 2048 % 32 = h := by omega
  have e4 : (Y * 33554432 + m * 2097152 + d * 65536 + h * 2048 + mi * 32 + s2) / 65536 % 32 = d := by omega
  have e5 : (Y * 33554432 + m * 2097152 + d * 65536 + h * 2048 + mi * 32 + s2) / 2097152 % 16 = m := by omega
  have e6 : (Y * 33554432 + m * 2097152 + d * 65536 + h * 2048 + mi * 32 + s2) / 33554432 % 128 = Y := by omega
  rw [e1, e2, e3, e4, e5, e6]

theorem timegm_plain (s mi h d m y : Nat) (hm1 : 1 ≤ m) (hm2 : m ≤ 12) :
    timegm { sec := s, min := mi, hour := h, mday := d, mon := (m : Int) - 1, year := y } =
      daysFromCivil y m d * 86400 + h * 3600 + mi * 60 + s := by
  unfold timegm
  have a : ¬ ((m : Int) - 1 < 0) := by omega
  have b : ¬ ((m : Int) - 1 ≥ 12) := by omega
  have c : ((m : Int) - 1).toNat + 1 = m := by omega
  simp only [a, b, if_false, c]

/-- **`unixToDos` is a right inverse of `dosTimeUTC`** on the even seconds from 1980-01-01 that a
32-bit time can hold -/
theorem dosTime_inverse (t : Nat) (h1 : 315532800 ≤ t) (h2 : t < 4294967296) (h3 : t % 2 = 0) :
    dosTimeUTC (unixToDos t) = t := by
  have hz := civOk_range (t / 86400) (by omega) (by omega)
  simp only [civOk, decide_eq_true_eq] at hz
  obtain ⟨y1, y2, m1, m2, d1, d2, hday⟩ := hz
  have ht0 : t ≠ 0 := by omega
  unfold unixToDos
  rw [if_neg ht0]
  simp only []
  generalize civilFromDays (t / 86400) = c at *
  obtain ⟨y, m, d⟩ := c
  simp only [] at y1 y2 m1 m2 d1 d2 hday ⊢
  have hr : t % 86400 < 86400 := Nat.mod_lt _ (by decide)
  have hne : (y - 1980) * 33554432 + m * 2097152 + d * 65536 + t % 86400 / 3600 * 2048 +
      t % 86400 % 3600 / 60 * 32 + t % 86400 % 60 / 2 ≠ 0 := by omega
  unfold dosTimeUTC
  rw [if_neg hne, dosToTm_pack (y - 1980) m d (t % 86400 / 3600) (t % 86400 % 3600 / 60) (t % 86400 % 60 / 2)
    (by omega) (by omega) (by omega) (by omega) (by omega) (by omega),
    timegm_plain _ _ _ _ _ _ m1 m2, show 1980 + (y - 1980) = y by omega, hday]
  omega

theorem dosTimeOk_zero : DosTimeOk 0 := by decide

/-- the times an MS-DOS stamp can carry: none (0), or an even second from 1980-01-01 -/
theorem dosTimeOk_of_even (t : Nat) (h : t = 0 ∨ (315532800 ≤ t ∧ t < 4294967296 ∧ t % 2 = 0)) : DosTimeOk t := by
  rcases h with rfl | ⟨h1, h2, h3⟩
  · exact dosTimeOk_zero
  · exact dosTime_inverse t h1 h2 h3

theorem unixToDos_lt (t : Nat) (h : t = 0 ∨ (315532800 ≤ t ∧ t < 4294967296)) : unixToDos t < 4294967296 := by
  rcases h with rfl | ⟨h1, h2⟩
  · decide
  · have hz := civOk_range (t / 86400) (by omega) (by omega)
    simp only [civOk, decide_eq_true_eq] at hz
    obtain ⟨y1, y2, m1, m2, d1, d2, _⟩ := hz
    unfold unixToDos
    rw [if_neg (by omega)]
    simp only []
    generalize civilFromDays (t / 86400) = c at *
    obtain ⟨y, m, d⟩ := c
    simp only [] at y1 y2 m1 m2 d1 d2 ⊢
    have hr : t % 86400 < 86400 := Nat.mod_lt _ (by decide)
    omega

-- 1980-01-01 00:00:00, 2000-02-29 12:34:56, 2038-01-19 03:14:08, the last even second below 2³²
example : DosTimeOk 315532800 ∧ DosTimeOk 951827696 ∧ DosTimeOk 2147483648 ∧ DosTimeOk 4294967294 := by decide
-- odd seconds and times before 1980 are lost
example : ¬ DosTimeOk 951827697 ∧ ¬ DosTimeOk 600 := by decide
#guard unixToDos 951827696 = (20 * 33554432 + 2 * 2097152 + 29 * 65536 + 12 * 2048 + 34 * 32 + 28)

end LhasaV.ArchiveOs
