import LhasaV.Lemmas.Lh1Mirror10
import LhasaV.Driver.OpsSpecLh1
/-!
# C02: the proved relation `Mirror` is the relation the driver op `lh1mirror` evaluates

`Driver.mirrorDiff z d = none` is the executable check run after every command by `lh1mirror`.
Under the decoder invariant it is equivalent to `Mirror d z` (which in addition records the sizes
of the LZHUF arrays, the sentinel `freq[T] = 0xffff` and `prnt[R] = 0`, facts about the LZHUF
side alone that `update` needs in order to terminate at the root).
-/
namespace LhasaV.Lh1Mirror
open LhasaV LhasaV.Lh1 LhasaV.Spec.Lzhuf LhasaV.Res

theorem not_bnot {b : Bool} : ¬ ((!b) = true) ↔ b = true := by cases b <;> simp

theorem mirrorDiff_none_iff (z : TreeState) (d : St) :
    Driver.mirrorDiff z d = none ↔ ∀ i, i < 627 →
      ((nd d (626 - i)).freq == z.freq.getD i 0 &&
       (if (nd d (626 - i)).leaf then
          z.son.getD i 0 == (nd d (626 - i)).child + 627 &&
          z.prnt.getD ((nd d (626 - i)).child + 627) 0 == i &&
          d.leafNodes.getD (nd d (626 - i)).child 0 == 626 - i
        else z.son.getD i 0 + (nd d (626 - i)).child == 626) &&
       (i == 626 || z.prnt.getD i 0 + (nd d (626 - i)).parent == 626)) = true := by
  unfold Driver.mirrorDiff
  rw [List.find?_eq_none]
  constructor
  · intro h i hi
    exact not_bnot.1 (h i (List.mem_range.mpr hi))
  · intro h i hi
    exact not_bnot.2 (h i (List.mem_range.mp hi))

/-- the proved relation implies the driver's check -/
theorem mirror_driver (d : St) (z : TreeState) (hi : Lh1.Inv d) (hm : Mirror d z) :
    Driver.mirrorDiff z d = none := by
  rw [mirrorDiff_none_iff]
  intro i hi'
  obtain ⟨_, m⟩ := hm
  have ht := hi.tree
  have e : 626 - (626 - i) = i := by omega
  have hf := m.freq (626 - i) (by omega)
  rw [e] at hf
  have hf' : (nd d (626 - i)).freq = z.freq.getD i 0 := by
    have : fr d (626 - i) = zf z i := by
      by_cases h0 : 626 - i = 0
      · rw [if_pos h0] at hf; omega
      · rw [if_neg h0] at hf; omega
    exact this
  simp only [Bool.and_eq_true, beq_iff_eq, Bool.or_eq_true]
  refine ⟨⟨hf', ?_⟩, ?_⟩
  · cases hl : (nd d (626 - i)).leaf
    · have := m.sonB (626 - i) (by omega) hl
      rw [e] at this
      simp only [Bool.false_eq_true, if_false, beq_iff_eq]
      exact this
    · have h1 := m.sonL (626 - i) (by omega) hl
      rw [e] at h1
      obtain ⟨l1, l2⟩ := ht.le (626 - i) (by omega) hl
      have h2 := m.lnP (ch d (626 - i)) l1
      rw [l2] at h2
      simp only [if_true, Bool.and_eq_true, beq_iff_eq]
      refine ⟨⟨h1, ?_⟩, l2⟩
      show zp z (ch d (626 - i) + 627) = i
      omega
  · by_cases h6 : i = 626
    · left; exact h6
    · right
      have := m.par (626 - i) (by omega) (by omega)
      rw [e] at this
      exact this

/-- conversely, the driver's check (plus the facts about the LZHUF side alone) gives the relation -/
theorem driver_mirror (d : St) (z : TreeState) (hi : Lh1.Inv d) (hw : ZWf z)
    (hs : z.freq.getD 627 0 = 65535) (hr : z.prnt.getD 626 0 = 0)
    (h : Driver.mirrorDiff z d = none) : Mirror d z := by
  rw [mirrorDiff_none_iff] at h
  have ht := hi.tree
  have key : ∀ j, j < 627 →
      fr d j = zf z (626 - j) ∧
      (lf d j = true → zs z (626 - j) = ch d j + 627 ∧ zp z (ch d j + 627) = 626 - j) ∧
      (lf d j = false → zs z (626 - j) + ch d j = 626) ∧
      (1 ≤ j → zp z (626 - j) + pa d j = 626) := by
    intro j hj
    have := h (626 - j) (by omega)
    have e : 626 - (626 - j) = j := by omega
    rw [e] at this
    simp only [Bool.and_eq_true, beq_iff_eq, Bool.or_eq_true] at this
    obtain ⟨⟨a, b⟩, c⟩ := this
    refine ⟨a, ?_, ?_, ?_⟩
    · intro hl
      have hl' : (nd d j).leaf = true := hl
      rw [if_pos hl'] at b
      simp only [Bool.and_eq_true, beq_iff_eq] at b
      exact ⟨b.1.1, b.1.2⟩
    · intro hl
      have hl' : (nd d j).leaf = false := hl
      rw [hl'] at b
      simp only [Bool.false_eq_true, if_false, beq_iff_eq] at b
      exact b
    · intro h1
      rcases c with c | c
      · omega
      · exact c
  refine ⟨hw, ?_, hs, ?_, ?_, ?_, hr, ?_⟩
  · intro j hj
    rw [(key j hj).1]
    split <;> rfl
  · intro j hj hl; exact ((key j hj).2.1 hl).1
  · intro j hj hl; exact (key j hj).2.2.1 hl
  · intro j h1 hj; exact (key j hj).2.2.2 h1
  · intro c hc
    obtain ⟨c1, c2, c3⟩ := ht.cd c hc
    have := ((key (ln d c) c1).2.1 c2).2
    rw [c3] at this
    omega

end LhasaV.Lh1Mirror
