import LhasaV.Lemmas.TestBytes10
import LhasaV.Lemmas.ArchivePack
/-!
# C07 end to end on archive BYTES: `lha t` / `lha x` on intact, damaged and truncated archives

The archive is `archiveWith pk es` (ArchiveOf2): one header per entry written by the C05 header
ENCODER, each followed by the member's data as the packer `pk` stores it.  `Item`s (TestBytes1)
generalise it: the same headers, but ANY bytes behind them, possibly fewer than declared behind the
last one — so that damaged and truncated archives are in the domain of ONE walk theorem,
`test_items` (TestBytes4): `lha t` records `testOk` and writes `testOut` for exactly the selected
members, where `testOk` is the C07 verdict READ OFF THE BYTES (`goodOf`: the decoder's output on the
physical bytes has the recorded length and CRC-16; `check_item` = `check_iff_all` on bytes).

* **(T1) `test_intact_archive`** (TestBytes5) — every clean encodable entry list in any order,
  every packer with `Packs`, every option set: trace = one `(header, true)` per selected entry in
  order (directories and links included: `lha_reader_check` answers good without decoding),
  standard output = the `goodLine`s (progress bar + `name - Tested` per file; closed forms at quiet
  1 and ≥ 2), nothing on standard error, no fault, no abort, the file system untouched, exit
  status 0.  `test_intact_all_methods`: for the specification encoders of all eleven methods.
  **`extract_intact_archive`** (TestBytes10): `lha x` into an empty directory — status 0, every
  handled member good, exactly the tree (C07 ∘ C06; the side condition `TraceNoTrail` of
  `MessagesAgree.mrun_tree` discharged on bytes).
* **(T2) `test_detects_damage`** (TestBytes6) — `damage es i pat`: the data bytes of stored file
  member `i` XORed with a burst of at most 16 bits (`IsBurst16`, the hypothesis of `crc16_burst`);
  `damage_bytes` / `damage_eq_xor`: nothing else changes.  The member is reported bad (`CRC error`),
  every other member good, exit status 1.  **`extract_detects_damage`** (TestBytes10): `lha xf`
  exits 1 (255 after `exit(-1)`), for ANY file system; `readerExtract_bad` (TestBytes9): the
  damaged bytes ARE written to the output file (the model, like the tool, leaves the file there).
* **(T3) `test_detects_truncation`** (TestBytes7) — the archive cut anywhere inside the data of the
  last stored member (`truncated_eq_take`): members before good, the cut member bad, exit status 1;
  **`extract_detects_truncation`**.

This file: a decidable test for `IsBurst16`, the all-methods instance, and non-vacuity on
`sampleTree` (`a/`, `a/x` = "hi", `a/b/`, `a/b/y` = "yy", `a/b/l → y`, `z` = "z") — hypotheses
discharged by `decide`, the runs evaluated on the bytes.
-/
set_option linter.unusedSimpArgs false
namespace LhasaV.TestBytes
open LhasaV LhasaV.Header LhasaV.Extract LhasaV.GlobFs LhasaV.Contain LhasaV.ExtractTree
open LhasaV.ExtractTree.Sample LhasaV.Spec.HeaderEnc LhasaV.Reader LhasaV.ArchiveOf
open LhasaV.PrintList LhasaV.Messages LhasaV.CrcBurst LhasaV.ArchivePack

/-! ## a decidable test for bursts -/

/-- some set bit `f`, some set bit at most 15 positions later, and no set bit outside -/
def burstB (e : Bytes) : Bool :=
  (List.range (8 * e.length)).any fun f => (List.range 16).any fun w =>
    bitAt e f && bitAt e (f + w) &&
      (List.range (8 * e.length)).all fun i => !bitAt e i || (decide (f ≤ i) && decide (i ≤ f + w))

theorem isBurst16_of_burstB (e : Bytes) (h : burstB e = true) : IsBurst16 e := by
  unfold burstB at h
  rw [List.any_eq_true] at h
  obtain ⟨f, _, h⟩ := h
  rw [List.any_eq_true] at h
  obtain ⟨w, hw, h⟩ := h
  simp only [Bool.and_eq_true, List.all_eq_true, List.mem_range, Bool.or_eq_true, Bool.not_eq_true',
    decide_eq_true_eq] at h hw
  obtain ⟨⟨h1, h2⟩, h3⟩ := h
  refine ⟨f, f + w, Nat.le_add_right _ _, by omega, h1, h2, ?_⟩
  intro i hi
  by_cases hlt : i < 8 * e.length
  · rcases h3 i hlt with h | h
    · rw [hi] at h; cases h
    · exact h
  · rw [bitAt_of_ge e i (by omega)] at hi; cases hi

/-! ## all methods -/

/-- **(T1) for every method of the decoder table with a specification encoder**: stored, `-lzs-`,
`-lz5-`, `-lh1-`, `-lh4-` … `-lh7-`, `-lhx-`, `-pm1-`, `-pm2-`, header level 1 or 2 -/
theorem test_intact_all_methods : ∀ m ∈ Method.all, ∀ (l1 : Bool) (es : List ExtractTree.Entry),
    (∀ e ∈ es, EntryOk e) → Encodable es → FilesSat m.fits es → ∀ (o : Opts) (fs : Fs.St) (answers : Bytes),
    (Messages.run .test (archiveWith (m.packer l1) es) o fs answers).trace.reverse =
      (es.filter (selected o.filters)).map (fun e => (hdrOf (m.packer l1) e, true)) ∧
    (Messages.run .test (archiveWith (m.packer l1) es) o fs answers).stdout =
      (es.filter (selected o.filters)).flatMap (goodLine o (m.packer l1)) ∧
    Messages.exitStatus (Messages.run .test (archiveWith (m.packer l1) es) o fs answers) = 0 := by
  intro m _ l1 es hok henc hfit o fs answers
  obtain ⟨h1, h2, _, _, _, _, h7⟩ := test_intact_archive (m.packer l1) es hok henc
    (packs_of _ m.fits (packOk_method m l1) es hfit) o fs answers
  exact ⟨h1, h2, h7⟩

/-! ## non-vacuity: `sampleTree` -/

theorem sampleTree_ok : ∀ e ∈ sampleTree, EntryOk e := by decide

/-- the member `a/x` = "hi" of the sample tree, the entries before and after it -/
def ax : ExtractTree.Entry := .file [[0x61], [0x78]] [0x68, 0x69] (some 0o100644) 333
def preAx : List ExtractTree.Entry := [.dir [[0x61]] (some 0o40555) 111]
def postAx : List ExtractTree.Entry :=
  [.dir [[0x61], [0x62]] (some 0o40555) 222, .file [[0x61], [0x62], [0x79]] [0x79, 0x79] (some 0o100600) 444,
   .link [[0x61], [0x62], [0x6c]] [0x79], .file [[0x7a]] [0x7a] none 0]

theorem sampleTree_split : sampleTree = preAx ++ ax :: postAx := rfl

/-- a single flipped bit: the lowest bit of `h` -/
def bit1 : Bytes := [0x01, 0x00]
/-- a 16-bit burst: the first bit of `h` and the last bit of `i`, positions 0 and 15 -/
def burst16 : Bytes := [0x01, 0x80]

theorem bit1_burst : IsBurst16 bit1 := isBurst16_of_burstB _ (by decide)
theorem burst16_burst : IsBurst16 burst16 := isBurst16_of_burstB _ (by decide)
/-- 17 bits are too many for the test (and for the CRC: `crc16_burst` is optimal) -/
example : burstB [0x01, 0x00, 0x01] = false := by decide

/-- (T1) `lha tq1` on the intact sample archive: six members handled, all good, three `Tested` lines -/
example :
    (Messages.run .test (archiveWith stored sampleTree) { quiet := 1 } sampleFs []).stdout =
      str "\ra/x :\ra/x\t- Tested  \n\ra/b/y :\ra/b/y\t- Tested  \n\rz :\rz\t- Tested  \n" ∧
    (Messages.run .test (archiveWith stored sampleTree) { quiet := 1 } sampleFs []).trace.reverse.map (·.2) =
      [true, true, true, true, true, true] ∧
    Messages.exitStatus (Messages.run .test (archiveWith stored sampleTree) { quiet := 1 } sampleFs []) = 0 := by
  obtain ⟨h1, h2, _, _, _, _, h7⟩ := test_intact_archive stored sampleTree sampleTree_ok sampleTree_enc
    (packs_stored sampleTree_enc) { quiet := 1 } sampleFs []
  refine ⟨?_, ?_, h7⟩
  · rw [h2]; decide +kernel
  · rw [h1]; decide +kernel

/-- (T1) the same members compressed as `-lh5-`, level-1 headers, wildcard `a/b/*` -/
example :
    Messages.exitStatus (Messages.run .test (archiveWith (Method.lh5.packer true) sampleTree)
      { filters := [str "a/b/*"] } sampleFs []) = 0 :=
  (test_intact_all_methods .lh5 (Method.mem_all _) true sampleTree sampleTree_ok sampleTree_enc
    (by decide) { filters := [str "a/b/*"] } sampleFs []).2.2

/-- (T2) one flipped bit in `a/x`: `a/x` bad, all others good, exit status 1 -/
example :
    (Messages.run .test (damage sampleTree 1 bit1) { quiet := 1 } sampleFs []).stdout =
      str "\ra/x :\ra/x\t- CRC error  \n\ra/b/y :\ra/b/y\t- Tested  \n\rz :\rz\t- Tested  \n" ∧
    (Messages.run .test (damage sampleTree 1 bit1) { quiet := 1 } sampleFs []).trace.reverse.map (·.2) =
      [true, false, true, true, true, true] ∧
    Messages.exitStatus (Messages.run .test (damage sampleTree 1 bit1) { quiet := 1 } sampleFs []) = 1 := by
  obtain ⟨h1, h2, _, _, _, _, h7⟩ := test_detects_damage preAx postAx [[0x61], [0x78]] [0x68, 0x69]
    (some 0o100644) 333 bit1 sampleTree_ok sampleTree_enc rfl bit1_burst { quiet := 1 } rfl sampleFs []
  refine ⟨?_, ?_, h7⟩
  · exact h2.trans (by decide +kernel)
  · have h1' : (Messages.run .test (damage sampleTree 1 bit1) { quiet := 1 } sampleFs []).trace.reverse = _ := h1
    rw [h1']
    simp only [List.map_append, List.map_map]
    decide +kernel

/-- (T2) a 16-bit burst across both bytes of `a/x`: exit status 1, for `lha t` and for `lha xf` -/
example :
    Messages.exitStatus (Messages.run .test (damage sampleTree 1 burst16) {} sampleFs []) = 1 :=
  (test_detects_damage preAx postAx [[0x61], [0x78]] [0x68, 0x69] (some 0o100644) 333 burst16
    sampleTree_ok sampleTree_enc rfl burst16_burst {} rfl sampleFs []).2.2.2.2.2.2

example (fs : Fs.St) (answers : Bytes) :
    Messages.exitStatus (Messages.run .extract (damage sampleTree 1 burst16) { overwrite := .all } fs answers) ≠ 0 := by
  have e : damage sampleTree 1 burst16 =
      damage (preAx ++ .file [[0x61], [0x78]] [0x68, 0x69] (some 0o100644) 333 :: postAx) preAx.length burst16 := rfl
  rw [e, extract_detects_damage preAx postAx [[0x61], [0x78]] [0x68, 0x69] (some 0o100644) 333 burst16
    sampleTree_ok sampleTree_enc rfl burst16_burst { overwrite := .all } rfl rfl (by decide) fs answers]
  split <;> decide

/-- the damaged archive has the size of the intact one and differs from it in exactly the two data bytes -/
example : (damage sampleTree 1 burst16).size = (archiveWith stored sampleTree).size :=
  damage_size preAx [[0x61], [0x78]] [0x68, 0x69] (some 0o100644) 333 postAx burst16 rfl

/-- (T3) the archive `a/ a/x a/b/ a/b/y` cut inside `a/b/y` ("yy", one byte left): exit status 1 -/
example :
    Messages.exitStatus (Messages.run .test
      (truncated (sampleTree.take 3) (.file [[0x61], [0x62], [0x79]] [0x79, 0x79] (some 0o100600) 444) 1)
      {} sampleFs []) = 1 :=
  (test_detects_truncation (sampleTree.take 3) [[0x61], [0x62], [0x79]] [0x79, 0x79] (some 0o100600) 444 1
    (by decide) (by decide) (by decide) {} rfl sampleFs []).2.2.2.2.2.2.2

/-- (T1, `lha x`) the intact sample archive into an empty directory, ordinary user: status 0 -/
example : Messages.exitStatus (Messages.run .extract (archiveWith stored sampleTree) {} sampleFs []) = 0 :=
  (extract_intact_archive stored sampleTree sampleTree_wf sampleTree_enc (packs_stored sampleTree_enc) {}
    sampleFs [] ⟨rfl, rfl, rfl⟩ sampleFs_empty (access_user_022 sampleFs rfl) rfl
    (MessagesAgree.promptOk_nil _)).1

/-! ### the same runs, evaluated on the bytes -/

-- intact
#guard (Messages.run .test (archiveWith stored sampleTree) {} sampleFs []).trace.reverse.map (·.2)
  == [true, true, true, true, true, true]
#guard Messages.exitStatus (Messages.run .test (archiveWith stored sampleTree) {} sampleFs []) == 0
#guard (Messages.run .test (archiveWith stored sampleTree) {} sampleFs []).stdout ==
  str ("\ra/x\t- Testing  :  .\ra/x\t- Testing  :  o\ra/x\t- Tested  \n" ++
       "\ra/b/y\t- Testing  :  .\ra/b/y\t- Testing  :  o\ra/b/y\t- Tested  \n" ++
       "\rz\t- Testing  :  .\rz\t- Testing  :  o\rz\t- Tested  \n")
#guard (Messages.run .test (archiveWith stored sampleTree) {} sampleFs []).stdout ==
  (sampleTree.flatMap (goodLine {} stored))
#guard Messages.exitStatus (Messages.run .test (archiveWith (Method.lh5.packer true) sampleTree) {} sampleFs []) == 0
#guard Messages.exitStatus (Messages.run .test (archiveWith (Method.pm2.packer false) sampleTree) {} sampleFs []) == 0
-- one bit, sixteen bits
#guard (damage sampleTree 1 bit1).size == (archiveWith stored sampleTree).size
#guard ((damage sampleTree 1 burst16).toList.zip (archiveWith stored sampleTree).toList).countP (fun x => x.1 != x.2) == 2
#guard (Messages.run .test (damage sampleTree 1 bit1) {} sampleFs []).trace.reverse.map (·.2)
  == [true, false, true, true, true, true]
#guard Messages.exitStatus (Messages.run .test (damage sampleTree 1 bit1) {} sampleFs []) == 1
#guard (Messages.run .test (damage sampleTree 1 burst16) {} sampleFs []).trace.reverse.map (·.2)
  == [true, false, true, true, true, true]
#guard Messages.exitStatus (Messages.run .test (damage sampleTree 1 burst16) {} sampleFs []) == 1
#guard (Messages.run .test (damage sampleTree 1 burst16) { quiet := 1 } sampleFs []).stdout ==
  str "\ra/x :\ra/x\t- CRC error  \n\ra/b/y :\ra/b/y\t- Tested  \n\rz :\rz\t- Tested  \n"
-- the wildcards pass the damaged member over: nothing to report
#guard Messages.exitStatus (Messages.run .test (damage sampleTree 1 burst16) { filters := [str "a/b/*"] } sampleFs []) == 0
-- the dry run decodes nothing (hence the hypothesis `dryRun = false`)
#guard Messages.exitStatus (Messages.run .test (damage sampleTree 1 burst16) { dryRun := true } sampleFs []) == 0
-- `lha x`: status 1, `Failure` line, and the damaged bytes `i é` are in the file `r/a/x`
#guard Messages.exitStatus (Messages.run .extract (damage sampleTree 1 burst16) {} sampleFs []) == 1
#guard (Messages.run .extract (damage sampleTree 1 burst16) { quiet := 1 } sampleFs []).stdout ==
  str "\ra/x :\ra/x\t- Failure  \n\ra/b/y :\ra/b/y\t- Melted  \nSymbolic Link a/b/l -> y\n\rz :\rz\t- Melted  \n"
#guard (match Fs.lookup (Messages.run .extract (damage sampleTree 1 burst16) {} sampleFs []).x.fs [[0x72], [0x61], [0x78]] with
  | some (.file d _ _) => d == [0x69, 0xe9]
  | _ => false)
-- truncation
#guard (Messages.run .test (truncated (sampleTree.take 3) (.file [[0x61], [0x62], [0x79]] [0x79, 0x79] (some 0o100600) 444) 1)
  {} sampleFs []).trace.reverse.map (·.2) == [true, true, true, false]
#guard Messages.exitStatus (Messages.run .test
  (truncated (sampleTree.take 3) (.file [[0x61], [0x62], [0x79]] [0x79, 0x79] (some 0o100600) 444) 0) {} sampleFs []) == 1
#guard Messages.exitStatus (Messages.run .extract
  (truncated (sampleTree.take 3) (.file [[0x61], [0x62], [0x79]] [0x79, 0x79] (some 0o100600) 444) 1) {} sampleFs []) == 1

end LhasaV.TestBytes
