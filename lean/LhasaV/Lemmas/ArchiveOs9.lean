import LhasaV.Lemmas.ArchiveOs7
import LhasaV.Lemmas.ArchiveOs8
/-!
# C06, archives as bytes, level-0 headers WITHOUT the Unix area (part 9): LHarc / LArc for MS-DOS

`archive0Dos pk es`: the plain LHarc header — method, sizes, MS-DOS time stamp, attribute, the whole
path with '\' separators, CRC; nothing else.  What such a header can say:

* no permissions (entries must have `perms = none`), hence no symbolic links — directories and
  files only;
* the time as an MS-DOS stamp: `ArchiveOs8.unixToDos t`, read back by the tool model's
  `Header.dosTimeUTC` (`TZ=UTC`) — exact when `DosTimeOk t` (t = 0, or an even second from
  1980-01-01: `dosTimeOk_of_even`);
* the OS type of a level-0 header is 0, which is MS-DOS like: a name without lower-case letters is
  folded to lower case, hence `CaseStable`;
* stored name ≤ 233 bytes.

`Entry0Dos` (decidable) collects these; **`extract_archive_level0_dos`** is the end-to-end theorem,
for every packer of `ArchivePack` (PMarc methods included: without an extended area nothing is
ignored).  The scheme is sound for `mktime` = `Header.dosTimeUTC` only — the reason `MemberOk`
carries the reader's `mktime`.
-/
set_option linter.unusedSimpArgs false
namespace LhasaV.ArchiveOs
open LhasaV LhasaV.Header LhasaV.Extract LhasaV.GlobFs LhasaV.Contain LhasaV.ExtractTree
open LhasaV.ExtractTree.Sample LhasaV.Spec.HeaderEnc LhasaV.ArchiveOf LhasaV.ArchivePack

/-- **the typed fields of a plain level-0 header** (a link has none: it is written like a
directory and excluded by `Entry0Dos`) -/
def fields0d (pk : Packer) : Entry → Fields
  | .file p data perms t =>
    { level := 0, method := (pk.pack data).1, clen := (pk.pack data).2.length, length := data.length,
      time := unixToDos t, crc := (Crc.buf 0 data).toNat, name := bsl (fullName (.file p data perms t)) }
  | .dir p perms t =>
    { level := 0, method := lhdM, clen := 0, length := 0, time := unixToDos t, crc := 0,
      name := bsl (fullName (.dir p perms t)) }
  | .link p _ =>
    { level := 0, method := lhdM, clen := 0, length := 0, time := 0, crc := 0, name := bsl (joinDir p) }

/-- the header the parser returns (with `mktime` = `dosTimeUTC`, for a time that survives) -/
def hdr0d (pk : Packer) : Entry → Hdr
  | .file p data perms t =>
    { path := pathOf p.dropLast, filename := some (p.getLast?.getD []), method := (pk.pack data).1,
      compressedLength := (pk.pack data).2.length, length := data.length, level := 0, osType := 0,
      crc := (Crc.buf 0 data).toNat, timestamp := t, raw := rawOf (fields0d pk (.file p data perms t)) }
  | .dir p perms t =>
    { path := some (joinDir p), filename := some [], method := lhdM, level := 0, osType := 0, timestamp := t,
      raw := rawOf (fields0d pk (.dir p perms t)) }
  | .link p tg =>
    { path := some (joinDir p), filename := some [], method := lhdM, level := 0, osType := 0,
      raw := rawOf (fields0d pk (.link p tg)) }

/-- **what a plain level-0 header can say** -/
def Entry0Dos : Entry → Prop
  | .dir p perms t => perms = none ∧ (∀ c ∈ p, NoBsl c) ∧ (joinDir p).length ≤ 233 ∧ DosTimeOk t ∧
      unixToDos t < 4294967296 ∧ CaseStable (.dir p perms t)
  | .file p data perms t => perms = none ∧ (∀ c ∈ p, NoBsl c) ∧ (joinDir p).length ≤ 233 ∧ DosTimeOk t ∧
      unixToDos t < 4294967296 ∧ CaseStable (.file p data perms t)
  | .link _ _ => False

instance (e : Entry) : Decidable (Entry0Dos e) := by
  cases e with
  | dir p perms t =>
    exact inferInstanceAs (Decidable (perms = none ∧ (∀ c ∈ p, NoBsl c) ∧ (joinDir p).length ≤ 233 ∧ DosTimeOk t ∧
      unixToDos t < 4294967296 ∧ CaseStable (.dir p perms t)))
  | file p data perms t =>
    exact inferInstanceAs (Decidable (perms = none ∧ (∀ c ∈ p, NoBsl c) ∧ (joinDir p).length ≤ 233 ∧ DosTimeOk t ∧
      unixToDos t < 4294967296 ∧ CaseStable (.file p data perms t)))
  | link _ _ => exact isFalse id

def Encodable0Dos (es : List Entry) : Prop := ∀ e ∈ es, Entry0Dos e

instance (es : List Entry) : Decidable (Encodable0Dos es) := inferInstanceAs (Decidable (∀ e ∈ es, Entry0Dos e))

/-- the two time conditions hold for "no time" and for every even second from 1980-01-01 -/
theorem time_ok_of_even (t : Nat) (h : t = 0 ∨ (315532800 ≤ t ∧ t < 4294967296 ∧ t % 2 = 0)) :
    DosTimeOk t ∧ unixToDos t < 4294967296 :=
  ⟨dosTimeOk_of_even t h, unixToDos_lt t (h.imp id (fun h => ⟨h.1, h.2.1⟩))⟩

theorem typed0n (mk : Nat → Nat) (f : Fields) (hl : f.level = 0) (hname : f.name ≠ []) (ha : f.area = .none) :
    typed mk f = splitFilename
      { level := 0, method := f.method, compressedLength := f.clen, length := f.length, crc := f.crc,
        raw := rawOf f, timestamp := mk f.time, osType := 0, filename := some (cstr (slashes f.name)) } := by
  unfold typed
  simp [hl, hname, ha, applyArea]

theorem post_level0d (h : Hdr) (hl : h.level = 0) (ho : h.osType = 0) (hf : h.extraFlags = 0)
    (hst : StableBytes (h.path.getD [] ++ h.filename.getD [])) (hcol : h.path.map PathFix.collapse = h.path) :
    post5 (post4 (post3 (post2 (post1 h)))) = .ok h := by
  rw [post_simple h (by simp [hasFlag, hf]) (by simp [hasFlag, hf])
    (by rw [ho]; decide) (fun _ => hst) hcol,
    show presented h.level h.osType h.method = h.method by rw [hl, presented_zero]]

theorem entry0_of_dos {e : Entry} (he : EntryEnc e) (h : Entry0Dos e) :
    (∀ c ∈ e.path, NoBsl c) ∧ (fullName e).length ≤ 233 := by
  cases e with
  | dir p perms t => exact ⟨h.2.1, h.2.2.1⟩
  | file p data perms t =>
    refine ⟨h.2.1, ?_⟩
    by_cases hne : p = []
    · subst hne; simp [fullName, joinDir]
    · have := joinDir_split p hne
      have := h.2.2.1
      simp only [fullName, List.length_append]
      omega
  | link _ _ => exact h.elim

theorem stored_name_d (e : Entry) (hk : EntryOk e) (he : EntryEnc e) (h0 : Entry0Dos e) :
    cstr (slashes (bsl (fullName e))) = fullName e := by
  have hb := (entry0_of_dos he h0).1
  apply cstr_name
  · apply fullName_bytes e hk.ne (· ≠ 0) (by decide) (by decide) (fun c hc b hb => (he.plain c hc b hb).1)
    intro p tg h; subst h; exact h0.elim
  · apply fullName_bytes e hk.ne (· ≠ 0x5c) (by decide) (by decide) hb
    intro p tg h; subst h; exact h0.elim

theorem normalise_dir0d (pk : Packer) (p : Fs.Path) (perms : Option Nat) (t : Nat)
    (hk : EntryOk (.dir p perms t)) (he : EntryEnc (.dir p perms t)) (h0 : Entry0Dos (.dir p perms t)) :
    normalise dosTimeUTC (fields0d pk (.dir p perms t)) = .ok (hdr0d pk (.dir p perms t)) := by
  have hs := stored_name_d _ hk he h0
  have hnn := bsl_ne_nil (fullName_ne _ hk)
  obtain ⟨rfl, _, _, htime, _, hcase⟩ := h0
  have hne : p ≠ [] := hk.ne
  have hn : ∀ c ∈ p, Name c := hk.names
  have ht : typed dosTimeUTC (fields0d pk (.dir p none t)) = hdr0d pk (.dir p none t) := by
    rw [typed0n _ _ rfl hnn rfl]
    simp only [fields0d] at hs ⊢
    rw [hs, splitFilename_link _ p [] (fun b hb => by cases hb) (by simp [fullName]), htime]
    simp [hdr0d, hne, fields0d]
  have hpre : postPre (hdr0d pk (.dir p none t)) = .ok (hdr0d pk (.dir p none t)) := by
    unfold postPre hdr0d
    simp [methodIs, lhdM_eq2, lh0_eq2, lhd_ne_lh0, hasFlag]
  unfold normalise
  rw [ht, postProcess_eq, hpre, Res.ok_bind, post_level0d _ rfl rfl rfl
    (by show StableBytes (joinDir p ++ []); rw [List.append_nil]; exact hcase)
    (by show Option.map PathFix.collapse (some (joinDir p)) = some (joinDir p)
        simp [collapse_joinDir p hn])]

theorem normalise_file0d (pk : Packer) (p : Fs.Path) (data : Bytes) (perms : Option Nat) (t : Nat)
    (hk : EntryOk (.file p data perms t)) (he : EntryEnc (.file p data perms t))
    (h0 : Entry0Dos (.file p data perms t)) (hnd : (pk.pack data).1 ≠ lhdM) :
    normalise dosTimeUTC (fields0d pk (.file p data perms t)) = .ok (hdr0d pk (.file p data perms t)) := by
  have hs := stored_name_d _ hk he h0
  have hnn := bsl_ne_nil (fullName_ne _ hk)
  obtain ⟨rfl, _, _, htime, _, hcase⟩ := h0
  have hmd : ((pk.pack data).1 == lhdM) = false := by
    rw [beq_eq_false_iff_ne]; exact hnd
  have hne : p ≠ [] := hk.ne
  have hn : ∀ c ∈ p, Name c := hk.names
  have hdl : ∀ c ∈ p.dropLast, Name c := fun c hc => hn c (List.dropLast_subset _ hc)
  have hlast : p.getLast?.getD [] ∈ p := by
    rw [List.getLast?_eq_some_getLast hne]; exact List.getLast_mem hne
  have ht : typed dosTimeUTC (fields0d pk (.file p data none t)) = hdr0d pk (.file p data none t) := by
    rw [typed0n _ _ rfl hnn rfl]
    simp only [fields0d] at hs ⊢
    rw [hs, splitFilename_link _ p.dropLast (p.getLast?.getD []) (hn _ hlast).1 (by simp [fullName]), htime]
    simp [hdr0d, pathOf, fields0d]
  have hpre : postPre (hdr0d pk (.file p data none t)) = .ok (hdr0d pk (.file p data none t)) := by
    unfold postPre hdr0d
    simp [methodIs, lhdM_eq2, hmd]
  unfold normalise
  rw [ht, postProcess_eq, hpre, Res.ok_bind, post_level0d _ rfl rfl rfl
    (by show StableBytes ((pathOf p.dropLast).getD [] ++ p.getLast?.getD [])
        rw [pathOf_getD]
        exact stable_split (os := 0) (e := .file p data none t) hne (fun _ => hcase) (by decide))
    (pathOf_collapse _ hdl)]

/-! ## the scheme -/

/-- the packer's output is a plain level-0 member the library decodes back to `data` -/
structure PackOk0d (pk : Packer) (data : Bytes) : Prop where
  sig : SigOk (pk.pack data).1
  notDir : (pk.pack data).1 ≠ lhdM
  clen : (pk.pack data).2.length < 4294967296
  decodes : ∃ d info, decoderFor (mname (pk.pack data).1) = some d ∧
    decoderInfo (mname (pk.pack data).1) = some info ∧
    Wrap.avail d.total data.length (.ok (d.init { data := (pk.pack data).2.toArray })) = data

theorem packOk0d_of_packOk {pk : Packer} {data : Bytes} (h : PackOk pk data) : PackOk0d pk data :=
  ⟨h.sig, h.notDir, by have := h.clen; omega, h.decodes⟩

def FilePack0d (pk : Packer) : Entry → Prop
  | .file _ data _ _ => PackOk0d pk data
  | _ => True

def Packs0d (pk : Packer) (es : List Entry) : Prop := ∀ e ∈ es, FilePack0d pk e

def scheme0d (pk : Packer) : Scheme := { fields := fields0d pk, data := dataOf pk, hdr := hdr0d pk }

/-- **the plain level-0 archive builder** -/
def archive0Dos (pk : Packer) (es : List Entry) : Array UInt8 := archiveS (scheme0d pk) es

theorem fields0d_wf (pk : Packer) {e : Entry} (hk : EntryOk e) (he : EntryEnc e) (h0 : Entry0Dos e)
    (hpk : FilePack0d pk e) : wf (fields0d pk e) = true := by
  have hlen := (entry0_of_dos he h0).2
  cases e with
  | dir p perms t =>
    have ht := h0.2.2.2.2.1
    simp [wf, fields0d, Area.wf, Area.bytes, bsl_length, ht, lhdM]
    omega
  | file p data perms t =>
    obtain ⟨_, _, _, _, hd⟩ := he
    have ht := h0.2.2.2.2.1
    have h7 := crc_lt data
    simp [wf, fields0d, Area.wf, Area.bytes, bsl_length, ht, hpk.sig.1, hpk.clen, hd]
    exact ⟨decide_eq_true (by simpa using h7), by omega⟩
  | link _ _ => exact h0.elim

theorem encode_shape0d (pk : Packer) (e : Entry) :
    ∃ a b tl, encode (fields0d pk e) = a :: b :: ((fields0d pk e).method ++ tl) ∧ 17 ≤ tl.length := by
  have hl : (fields0d pk e).level = 0 := by cases e <;> rfl
  unfold encode
  rw [HeaderRT.enc_l0 _ hl]
  refine ⟨_, _, _, rfl, ?_⟩
  simp [le16, le32]
  omega

/-- **the plain level-0 scheme is sound** — for the tool's `mktime` -/
theorem memberOk_0d (pk : Packer) (e : Entry) (hk : EntryOk e) (he : EntryEnc e) (h0 : Entry0Dos e)
    (hpk : FilePack0d pk e) : MemberOk (scheme0d pk) dosTimeUTC e where
  sig := by
    cases e with
    | dir _ _ _ => exact lhdM_sig
    | file _ data _ _ => exact hpk.sig
    | link _ _ => exact lhdM_sig
  shape := encode_shape0d pk e
  read := fun rest =>
    HeaderRT.header_roundtrip_ok dosTimeUTC _ (fields0d_wf pk hk he h0 hpk) rest _
      (by
        cases e with
        | dir p perms t => exact normalise_dir0d pk p perms t hk he h0
        | file p data perms t => exact normalise_file0d pk p data perms t hk he h0 hpk.notDir
        | link p tg => exact h0.elim)
  denotes := by
    show HdrOf e (hdr0d pk e)
    cases e with
    | dir p perms t =>
      obtain ⟨rfl, _⟩ := h0
      exact ⟨rfl, rfl, lhdM_eq, rfl, permsOf_hdr _ none rfl rfl, rfl⟩
    | file p data perms t =>
      obtain ⟨rfl, _⟩ := h0
      refine ⟨pathOf_getD _, rfl, ?_, rfl, permsOf_hdr _ none rfl rfl, rfl⟩
      show (pk.pack data).1 ≠ "-lhd-".toUTF8.toList
      rw [← lhdM_eq]; exact hpk.notDir
    | link p tg => exact h0.elim
  clen := by cases e <;> rfl
  os := by cases e <;> exact (show (0 : Nat) ≠ 0x6d by decide)
  file := by
    intro p data perms t h
    have h' : e = .file p data perms t := h
    subst h'
    exact ⟨rfl, rfl, hpk.decodes⟩

/-- **Extraction reproduces every tree a plain LHarc archive can hold.**  For every sound packer and
EVERY well-formed, encodable tree of directories and files without recorded permissions, with
case-stable names of at most 233 stored bytes without '\', and times an MS-DOS stamp can carry
(`Encodable0Dos`; times: 0 or any even second from 1980-01-01, `time_ok_of_even`): `lha x` on the
bytes `archive0Dos pk es` into an empty directory, as root or ordinary user, succeeds and leaves
exactly the tree — contents, default modes under the umask, the EXACT times; nothing outside
changes. -/
theorem extract_archive_level0_dos (pk : Packer) (es : List Entry) (hwf : WellFormed es) (henc : Encodable es)
    (h0 : Encodable0Dos es) (hpk : Packs0d pk es) (o : Opts) (fs : Fs.St) (answers : Bytes) (ho : OptsOk o)
    (hfs : EmptyDir fs) (ha : Access fs) : Reproduces (archive0Dos pk es) es o fs answers := by
  have hok : AllOk (scheme0d pk) Header.dosTimeUTC es := fun e he =>
    memberOk_0d pk e (entryOk_of_wf hwf e he) (henc e he) (h0 e he) (hpk e he)
  have hid : es.map (scheme0d pk).den = es := by
    show es.map id = es
    simp
  have := extract_archiveS (scheme0d pk) es (by rw [hid]; exact hwf) hok o fs answers ho hfs ha
  rw [hid] at this
  exact this

/-- all eleven methods -/
theorem extract_archive_level0_dos_method (m : Method) (es : List Entry) (hwf : WellFormed es)
    (henc : Encodable es) (h0 : Encodable0Dos es) (hfit : FilesSat m.fits es)
    (o : Opts) (fs : Fs.St) (answers : Bytes) (ho : OptsOk o) (hfs : EmptyDir fs) (ha : Access fs) :
    Reproduces (archive0Dos (m.packer false) es) es o fs answers := by
  refine extract_archive_level0_dos (m.packer false) es hwf henc h0 ?_ o fs answers ho hfs ha
  intro e he
  have := hfit e he
  cases e with
  | dir _ _ _ => trivial
  | link _ _ => trivial
  | file p data perms t => exact packOk0d_of_packOk (packOk_method m false data this)

end LhasaV.ArchiveOs
