import LhasaV.Lemmas.Contain4
/-!
# C10, the whole run (part 5)

* `HdrInv Q rd`: every header object the reader holds (the basic reader's current header, the
  reader's current header, the directory stack, the deferred links) satisfies `Q`.  For a `Q`
  that holds for every header `Header.read` returns, `HdrInv Q` is an invariant of
  `lha_reader_next_file` and `lha_reader_extract`, so every header the loop is ever handed
  satisfies `Q` (`presented_of_inv`).  With `Q := FnOk ∧ PathOk` this is the C11 invariant
  (`Header.read_names_ok`): it need not be assumed.
* `run_contained`: `Extract.run` from a `SafeLinks` state, without `w=`: every mutation the run
  logs is below the extraction directory, PROVIDED no presented member is named ".."
  (`NotNamedDotDot`, the one thing the C11 invariant does not give).
* `run_contained_main`: if moreover no deferred link is presented, `SafeLinks` also holds at
  the end.
-/
namespace LhasaV.Contain
open LhasaV LhasaV.Header LhasaV.Extract LhasaV.GlobFs

/-- every header the reader holds satisfies `Q` -/
structure HdrInv (Q : Hdr → Prop) (rd : Reader.St) : Prop where
  bcurr : ∀ c, rd.basic.curr = some c → Q c.h
  curr : ∀ c, rd.curr = some c → Q c.h
  stack : ∀ c ∈ rd.dirStack, Q c.h
  deferred : ∀ c ∈ rd.deferred, Q c.h

section inv
variable {Q : Hdr → Prop}

theorem HdrInv.of_frame {s s' : Reader.St} (f : Reader.Frame s s') (h : HdrInv Q s) : HdrInv Q s' := by
  refine ⟨?_, ?_, ?_, ?_⟩
  · rw [f.bcurr]; exact h.bcurr
  · rw [f.curr]; exact h.curr
  · rw [f.dirStack]; exact h.stack
  · rw [f.deferred]; exact h.deferred

/-- `Q` holds for every header the parser returns -/
def Parsed (Q : Hdr → Prop) : Prop :=
  ∀ mk inp h rest, Header.read mk inp = .ok (h, rest) → Q h

open Reader in
theorem basicRelease_curr (b : Basic) (led : Ledger) : (basicRelease b led).1.curr = none := by
  unfold basicRelease
  cases hc : b.curr with
  | none => exact hc
  | some c => rfl

open Reader in
theorem basicParse_hdr (hQ : Parsed Q) {mk : Nat → Nat} {b b' : Basic} {led led' : Ledger}
    (hb : b.curr = none) (e : basicParse mk b led = .ok (b', led')) :
    ∀ c, b'.curr = some c → Q c.h := by
  unfold basicParse at e
  split at e
  · cases e; intro c hc; rw [hb] at hc; cases hc
  · cases hs : Stream.start b.stream with
    | fail => rw [hs] at e; cases e
    | fault w => rw [hs] at e; cases e
    | ok st =>
      rw [hs] at e
      simp only [Res.ok_bind] at e
      split at e
      · cases e; intro c hc; simp only at hc; rw [hb] at hc; cases hc
      · split at e
        · cases e
        · cases e; intro c hc; simp only at hc; rw [hb] at hc; cases hc
        · rename_i hd rest hr
          cases e
          intro c hc
          simp only [Option.some.injEq] at hc
          subst hc
          exact hQ _ _ _ _ hr

open Reader in
theorem basicNext_hdr (hQ : Parsed Q) {mk : Nat → Nat} {b b' : Basic} {led led' : Ledger}
    (e : basicNext mk b led = .ok (b', led')) : ∀ c, b'.curr = some c → Q c.h := by
  rw [basicNext_eq] at e
  exact basicParse_hdr hQ (basicRelease_curr b led) e

open Reader in
theorem nextAdv_inv (hQ : Parsed Q) {s s1 : Reader.St} (h : HdrInv Q s) (e : nextAdv s = .ok s1) :
    HdrInv Q s1 := by
  by_cases ht : s.currType = .start ∨ s.currType = .normal
  · obtain ⟨r, hr, rfl⟩ := nextAdv_stream ht e
    obtain ⟨b', led'⟩ := r
    exact ⟨basicNext_hdr hQ hr, h.curr, h.stack, h.deferred⟩
  · rw [nextAdv_fake ht] at e
    cases e; exact h

open Reader in
theorem nextUnref_inv {s : Reader.St} (h : HdrInv Q s) : HdrInv Q (nextUnref s) := by
  refine ⟨?_, ?_, ?_, ?_⟩
  · rw [nextUnref_basic]; exact h.bcurr
  · rw [nextUnref_curr]; exact h.curr
  · rw [nextUnref_dirStack]; exact h.stack
  · rw [nextUnref_deferred]; exact h.deferred

open Reader in
theorem nextPop_inv {s : Reader.St} (h : HdrInv Q s) : HdrInv Q (nextPop s) := by
  unfold nextPop
  split
  · split
    · rename_i top rest hd
      refine ⟨h.bcurr, ?_, ?_, h.deferred⟩
      · intro c hc
        simp only [Option.some.injEq] at hc
        subst hc
        exact h.stack _ (by rw [hd]; simp)
      · intro c hc
        exact h.stack c (by rw [hd]; simp [show c ∈ rest from hc])
    · exact h
  · exact ⟨h.bcurr, h.bcurr, h.stack, h.deferred⟩

open Reader in
theorem nextDeferred_inv {s : Reader.St} (h : HdrInv Q s) : HdrInv Q (nextDeferred s) := by
  unfold nextDeferred
  split
  · exact h
  · split
    · rename_i d rest hd
      refine ⟨h.bcurr, ?_, h.stack, ?_⟩
      · intro c hc
        simp only [Option.some.injEq] at hc
        subst hc
        exact h.deferred _ (by rw [hd]; simp)
      · intro c hc
        exact h.deferred c (by rw [hd]; simp [show c ∈ rest from hc])
    · exact ⟨h.bcurr, h.curr, h.stack, h.deferred⟩

open Reader in
/-- `lha_reader_next_file` keeps the invariant -/
theorem next_inv (hQ : Parsed Q) {rd rd' : Reader.St} {oc : Option HObj} (h : HdrInv Q rd)
    (e : Reader.next rd = .ok (oc, rd')) : HdrInv Q rd' := by
  have hcd : HdrInv Q (closeDecoder rd) := h.of_frame (closeDecoder_frame rd)
  rw [next_eq] at e
  split at e
  · simp only [Except.ok.injEq, Prod.mk.injEq] at e
    rw [← e.2]; exact hcd
  · cases ha : nextAdv (closeDecoder rd) with
    | error w => rw [ha] at e; cases e
    | ok s1 =>
      rw [ha] at e
      simp only [bind, Except.bind, Except.ok.injEq, Prod.mk.injEq] at e
      rw [← e.2]
      exact nextDeferred_inv (nextPop_inv (nextUnref_inv (nextAdv_inv hQ hcd ha)))

theorem mem_takeWhile_mem {α} (p : α → Bool) (l : List α) (x : α) (h : x ∈ l.takeWhile p) : x ∈ l :=
  (List.takeWhile_sublist p).subset h

theorem mem_dropWhile_mem {α} (p : α → Bool) (l : List α) (x : α) (h : x ∈ l.dropWhile p) : x ∈ l :=
  (List.dropWhile_sublist p).subset h

open Reader in
/-- the reader half of `lha_reader_extract` keeps the invariant: the only headers it stores (on
the directory stack, among the deferred links) are the current one -/
theorem extract_inv {s : Reader.St} (h : HdrInv Q s) (b : Bool) : HdrInv Q (Reader.extract s b).2 := by
  unfold Reader.extract
  split
  · rename_i c _ hcur
    have hQc : Q c.h := h.curr c hcur
    split
    · dsimp only
      split
      · exact h.of_frame (openDecoder_frame s)
      · split
        · exact h.of_frame (openDecoder_frame s)
        · exact h.of_frame ((openDecoder_frame s).trans (decodeLoop_frame _ _ _))
    · split
      · split
        · split
          · exact h
          · refine ⟨h.bcurr, h.curr, h.stack, ?_⟩
            intro x hx
            simp only [List.append_assoc, List.mem_append, List.mem_cons,
              List.not_mem_nil, or_false] at hx
            rcases hx with hx | hx | hx
            · exact h.deferred x (mem_takeWhile_mem _ _ _ hx)
            · subst hx; exact hQc
            · exact h.deferred x (mem_dropWhile_mem _ _ _ hx)
        · exact h
      · split
        · exact h
        · split
          · exact h
          · refine ⟨h.bcurr, h.curr, ?_, h.deferred⟩
            intro x hx
            rcases List.mem_cons.1 hx with hx | hx
            · subst hx; exact hQc
            · exact h.stack x hx
  · exact h
  · exact h
  · exact h

/-- so does `lha_reader_extract` as a whole -/
theorem readerExtract_inv {rd : Reader.St} (h : HdrInv Q rd) (fs : Fs.St) (fn : Bytes) :
    HdrInv Q (readerExtract rd fs fn).2.1 := by
  unfold readerExtract
  split <;> (try simp only) <;> repeat' split
  all_goals first
    | exact h
    | exact extract_inv h _

theorem eaf_inv {s : St} (h : HdrInv Q s.rd) (hd : Hdr) : HdrInv Q (extractArchivedFile s hd).rd := by
  rcases eaf_cases s hd with ⟨_, h2⟩ | ⟨_, h2⟩ | ⟨_, h2⟩
  · rw [h2]; exact h
  · rw [h2]; exact h
  · rw [h2]; exact readerExtract_inv h _ _

/-- **every header the loop is handed satisfies `Q`** -/
theorem presented_of_inv (hQ : Parsed Q) :
    ∀ (fuel : Nat) (s : St), HdrInv Q s.rd → Presented (fun _ c => Q c.h) fuel s := by
  intro fuel
  induction fuel with
  | zero => intro s _; trivial
  | succ n ih =>
    intro s h
    rw [Presented]
    split
    · trivial
    · split
      · trivial
      · trivial
      · rename_i c rd hn
        have hrd : HdrInv Q rd := next_inv hQ h hn
        obtain ⟨_, _, _, hcur⟩ := next_some hn
        refine ⟨hrd.curr c hcur, ?_⟩
        split
        · exact ih _ hrd
        · exact ih _ (eaf_inv (s := { s with rd := rd }) hrd c.h)

end inv

theorem Presented.and {P R : St → Reader.HObj → Prop} :
    ∀ fuel s, Presented P fuel s → Presented R fuel s → Presented (fun s c => P s c ∧ R s c) fuel s := by
  intro fuel
  induction fuel with
  | zero => intro s _ _; trivial
  | succ n ih =>
    intro s h1 h2
    rw [Presented] at h1 h2 ⊢
    split
    · trivial
    · rename_i ha
      rw [if_neg ha] at h1 h2
      split
      · trivial
      · trivial
      · rename_i c rd hn
        rw [hn] at h1 h2
        simp only at h1 h2
        refine ⟨⟨h1.1, h2.1⟩, ?_⟩
        have a := h1.2
        have b := h2.2
        split
        · rename_i hf; rw [if_pos hf] at a b; exact ih _ a b
        · rename_i hf; rw [if_neg hf] at a b; exact ih _ a b

/-- the C11 invariant holds for every parsed header -/
theorem parsed_good : Parsed (fun h => FnOk h ∧ PathOk h) :=
  fun mk inp h rest hr => Header.read_names_ok mk inp h rest hr

/-! ## `Extract.run` -/

/-- the state `run` starts the loop in -/
def runInit (archive : Array UInt8) (o : Opts) (fs : Fs.St) (answers : Bytes) : St :=
  { rd := { basic := { stream := { kind := .seekable, data := archive } }, mktime := Header.dosTimeUTC },
    fs := fs, opts := o, answers := answers }

def runFuel (archive : Array UInt8) : Nat := 2 * archive.size + 16

theorem run_eq (archive : Array UInt8) (o : Opts) (fs : Fs.St) (answers : Bytes) :
    run archive o fs answers = extractLoop (runFuel archive) (runInit archive o fs answers) := rfl

theorem runInit_inv (Q : Hdr → Prop) (archive : Array UInt8) (o : Opts) (fs : Fs.St) (answers : Bytes) :
    HdrInv Q (runInit archive o fs answers).rd :=
  ⟨fun c h => by simp [runInit] at h, fun c h => by simp [runInit] at h,
   fun c h => by simp [runInit] at h, fun c h => by simp [runInit] at h⟩

/-- **the C11 invariant for every header the run is handed** (no hypothesis on the archive) -/
theorem run_presents_good (archive : Array UInt8) (o : Opts) (fs : Fs.St) (answers : Bytes) :
    Presented (fun _ c => FnOk c.h ∧ PathOk c.h) (runFuel archive) (runInit archive o fs answers) :=
  presented_of_inv parsed_good _ _ (runInit_inv _ archive o fs answers)

/-- "no member handed to the run is named '..'": the one hypothesis on the archive -/
def NoDotDotNames (archive : Array UInt8) (o : Opts) (fs : Fs.St) (answers : Bytes) : Prop :=
  Presented (fun s c => NotNamedDotDot s.opts c.h) (runFuel archive) (runInit archive o fs answers)

theorem run_presents_hdrOk (archive : Array UInt8) (o : Opts) (fs : Fs.St) (answers : Bytes)
    (hn : NoDotDotNames archive o fs answers) :
    Presented (fun s c => HdrOk s.opts c.h) (runFuel archive) (runInit archive o fs answers) := by
  have := Presented.and _ _ (run_presents_good archive o fs answers) hn
  exact Presented.mono (fun s c h => ⟨h.1.1, h.1.2, h.2⟩) _ _ this

/-- **C10, the whole run.**  `lha x archive` (no `w=`) started in an extraction directory whose
links are all safe (for instance: none), on ANY archive bytes, with ANY answers at the overwrite
prompt: every mutation the run adds to the log — files, directories, parent directories, safe
links, placeholders, metadata of re-presented directories, deferred links — acts on a path below
the extraction directory, provided no member handed out by the reader is named "..". -/
theorem run_contained (archive : Array UInt8) (o : Opts) (fs₀ : Fs.St) (answers : Bytes)
    (hw : o.extractPath = none) (hs : SafeLinks fs₀) (hn : NoDotDotNames archive o fs₀ answers) :
    (run archive o fs₀ answers).fs.cwd = fs₀.cwd ∧
    ∃ new, (run archive o fs₀ answers).fs.log = new ++ fs₀.log ∧ ∀ m ∈ new, fs₀.cwd <+: m.path := by
  rw [run_eq]
  have h := extractLoop_below (runFuel archive) (runInit archive o fs₀ answers) hw hs
    (run_presents_hdrOk archive o fs₀ answers hn)
  exact ⟨h.cwd, h.log⟩

/-- the same when the reader never reaches its deferred phase (e.g. the archive has no dangerous
link): then all links below the extraction directory are still safe at the end -/
theorem run_contained_main (archive : Array UInt8) (o : Opts) (fs₀ : Fs.St) (answers : Bytes)
    (hw : o.extractPath = none) (hs : SafeLinks fs₀) (hn : NoDotDotNames archive o fs₀ answers)
    (hd : Presented (fun s _ => s.rd.currType ≠ .deferred) (runFuel archive)
      (runInit archive o fs₀ answers)) :
    Contained fs₀ (run archive o fs₀ answers).fs := by
  rw [run_eq]
  exact extractLoop_contained_main fs₀ _ _ hw (Contained.refl fs₀ hs)
    (Presented.and _ _ (run_presents_hdrOk archive o fs₀ answers hn) hd)

end LhasaV.Contain
