import LhasaV.Lemmas.ReaderWorkPresentBase
import LhasaV.Model.Lzs
/-! `Present` for the null (`-lh0-`, `-lz4-`, `-pm0-`), `-lz5-` and `-lzs-` decoders: the position of
the source stays inside the data physically present (structure of `HonestSmall`). -/
namespace LhasaV.ReaderPresent
open LhasaV

theorem present_null : Present Null.dec := by
  refine ⟨fun N src h => h, ?_⟩
  intro N st o st' e h
  simp only [Null.dec, Null.read, Res.ok.injEq] at e
  have : st' = (st.read Gen.nullBlockReadSize).2 := by rw [e]
  subst this
  exact src_read_in N _ _ h

/-! ## -lz5- -/

theorem lz5_cmdLoop_le : ∀ (k bit bitmap : Nat) (s : Lz5.St) (acc : List UInt8) (o : List UInt8) (s' : Lz5.St),
    Lz5.cmdLoop k bit bitmap s acc = .ok (o, s') → PLe s.src s'.src := by
  intro k
  induction k with
  | zero =>
    intro bit bitmap s acc o s' e
    simp only [Lz5.cmdLoop, Res.ok.injEq, Prod.mk.injEq] at e
    rw [← e.2]; exact PLe.refl _
  | succ k ih =>
    intro bit bitmap s acc o s' e
    unfold Lz5.cmdLoop at e
    split at e
    · dsimp only at e
      split at e
      · split at e
        · exact (src_read_le s.src 1).trans (ih _ _ _ _ _ _ e)
        · cases e
      · cases e
        exact src_read_le s.src 1
    · dsimp only at e
      split at e
      · obtain ⟨r, _, e2⟩ := Res.bind_eq_ok.mp e
        exact (src_read_le s.src 2).trans (ih _ _ _ _ _ _ e2)
      · cases e
        exact src_read_le s.src 2

theorem present_lz5 : Present Lz5.dec := by
  refine ⟨fun N src h => h, fun N st o st' e => ?_⟩
  revert N
  show PLe st.src st'.src
  simp only [Lz5.dec] at e
  unfold Lz5.read at e
  dsimp only at e
  split at e
  · obtain ⟨r, e1, e2⟩ := Res.bind_eq_ok.mp e
    cases e2
    exact (src_read_le st.src 1).trans (lz5_cmdLoop_le _ _ _ _ _ _ _ e1)
  · cases e
    exact src_read_le st.src 1

/-! ## -lzs- -/

theorem present_lzs : Present Lzs.dec := by
  refine ⟨fun N src h => h, fun N st o st' e => ?_⟩
  revert N
  show PLe st.bits.src st'.bits.src
  simp only [Lzs.dec] at e
  unfold Lzs.read at e
  dsimp only at e
  have h1 := readBit_le st.bits
  split at e
  · cases e
    exact h1
  · split at e
    · have h2 := readBits_le st.bits.readBit.2 8
      split at e
      · cases e
        exact h1.trans h2
      · split at e
        · cases e
          exact h1.trans h2
        · cases e
    · have h2 := readBits_le st.bits.readBit.2 11
      have h3 := readBits_le (st.bits.readBit.2.readBits 11).2 4
      split at e
      · obtain ⟨r, _, e2⟩ := Res.bind_eq_ok.mp e
        cases e2
        exact h1.trans (h2.trans h3)
      · cases e
        exact h1.trans (h2.trans h3)

end LhasaV.ReaderPresent
