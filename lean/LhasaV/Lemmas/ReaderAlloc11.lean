import LhasaV.Lemmas.ReaderAlloc10
import LhasaV.Lemmas.ReaderAllocHdr2
import LhasaV.Lemmas.StreamProps
/-!
# Allocation-aware reader, part 11: `next` never faults under allocation failure

Because no allocation failure is swallowed, the allocation-aware header parser either takes an
error return or returns what `Header.read` returns (`Alloc.readRestA_weak`).  Hence it never
faults (`Header.read_no_fault`) and a header it hands out consumed its bytes
(`Stream.header_read_consumes`): the lead-in invariant `Stream.WF` of the original reader is kept
by every operation under every oracle, and `nextA` always returns.  This discharges the
hypothesis `NextsOk` of `alloc_failure_reports` and `alloc_failure_decoders_exact` for streams whose
lead-in buffer is within its capacity (it is empty in a new stream).
-/
namespace LhasaV.Reader
open LhasaV LhasaV.Alloc

/-- what `read`, `check`, `extract` never touch besides `Frame`: the lead-in buffer -/
def SameLeadin (s s' : St) : Prop :=
  s'.basic.stream.leadin = s.basic.stream.leadin ∧ s'.basic.curr = s.basic.curr

theorem SameLeadin.refl (s : St) : SameLeadin s s := ⟨rfl, rfl⟩
theorem SameLeadin.trans {a b c : St} (h1 : SameLeadin a b) (h2 : SameLeadin b c) : SameLeadin a c :=
  ⟨h2.1.trans h1.1, h2.2.trans h1.2⟩

theorem closeDecoder_sameLeadin (s : St) : SameLeadin s (closeDecoder s) := by
  unfold closeDecoder
  split
  · exact SameLeadin.refl s
  · exact ⟨rfl, rfl⟩

theorem SameLeadin.wf {s s' : St} (h : SameLeadin s s') (wf : Stream.WF s.basic) : Stream.WF s'.basic := by
  unfold Stream.WF at *
  rw [h.1, h.2]; exact wf

theorem openDecoderA_sameLeadin (o : Oracle) (a : StA) : SameLeadin a.s (openDecoderA o a).2.s := by
  unfold openDecoderA
  dsimp only
  split
  · exact SameLeadin.refl _
  · split
    · exact SameLeadin.refl _
    · split
      · split
        · exact SameLeadin.refl _
        · split
          · split
            · dsimp only
              refine SameLeadin.trans ?_ (closeDecoder_sameLeadin _)
              exact ⟨rfl, rfl⟩
            · split
              · dsimp only
                refine SameLeadin.trans ?_ (closeDecoder_sameLeadin _)
                exact ⟨rfl, rfl⟩
              · exact ⟨rfl, rfl⟩
          · exact ⟨rfl, rfl⟩
      · exact SameLeadin.refl _

theorem readCore_sameLeadin (s : St) (k : Nat) : SameLeadin s (readCore s k).2 := by
  unfold readCore
  split
  · exact SameLeadin.refl s
  · split
    · exact ⟨rfl, rfl⟩
    · exact ⟨rfl, rfl⟩
    · exact SameLeadin.refl s

theorem readA_sameLeadin (o : Oracle) (a : StA) (k : Nat) : SameLeadin a.s (readA o a k).2.s := by
  rw [readA_eq]
  split
  · split
    · exact readCore_sameLeadin a.s k
    · exact SameLeadin.refl _
  · split
    · exact SameLeadin.trans (openDecoderA_sameLeadin o a) (readCore_sameLeadin _ k)
    · exact openDecoderA_sameLeadin o a

theorem decodeLoopA_sameLeadin (o : Oracle) (fuel : Nat) (a : StA) (acc : List UInt8) :
    SameLeadin a.s (decodeLoopA o fuel a acc).2.s := by
  induction fuel generalizing a acc with
  | zero => exact SameLeadin.refl _
  | succ n ih =>
    unfold decodeLoopA
    dsimp only
    split
    · exact readA_sameLeadin o a 64
    · exact SameLeadin.trans (readA_sameLeadin o a 64) (ih _ _)

theorem checkA_sameLeadin (o : Oracle) (a : StA) : SameLeadin a.s (checkA o a).2.s := by
  unfold checkA
  split
  · exact SameLeadin.refl _
  · split
    · exact SameLeadin.refl _
    · split
      · exact SameLeadin.refl _
      · dsimp only
        split
        · exact openDecoderA_sameLeadin o a
        · exact SameLeadin.trans (openDecoderA_sameLeadin o a) (decodeLoopA_sameLeadin o _ _ _)

theorem extractA_sameLeadin (o : Oracle) (a : StA) (fsOk : Bool) : SameLeadin a.s (extractA o a fsOk).2.s := by
  unfold extractA
  dsimp only
  split
  · split
    · split
      · exact SameLeadin.refl _
      · generalize hA : ({ s := a.s, hp := { (allocAt o Site.extractName a.hp).2 with
            live := (allocAt o Site.extractName a.hp).2.live + 1 } } : StA) = a1
        have hs1 : a1.s = a.s := by rw [← hA]
        rw [← hs1]
        split
        · exact openDecoderA_sameLeadin o a1
        · split
          · exact openDecoderA_sameLeadin o a1
          · exact SameLeadin.trans (openDecoderA_sameLeadin o a1) (decodeLoopA_sameLeadin o _ _ _)
    · split
      · split
        · exact SameLeadin.refl _
        · split
          · split
            · exact SameLeadin.refl _
            · exact ⟨rfl, rfl⟩
          · exact SameLeadin.refl _
      · split
        · exact SameLeadin.refl _
        · split
          · exact SameLeadin.refl _
          · exact ⟨rfl, rfl⟩
  · exact SameLeadin.refl _
  · split <;> exact SameLeadin.refl _
  · exact SameLeadin.refl _

/-! ## the basic reader -/

/-- `basicParseA` never faults and keeps the lead-in invariant, under any oracle -/
theorem basicParseA_ok {o : Oracle} (mk : Nat → Nat) (b : Basic) (led : Ledger) (hp : Heap)
    (wf : Stream.WF b) (hc : b.curr = none) :
    ∃ r, basicParseA o mk b led hp = .ok r ∧ Stream.WF r.1.1 := by
  unfold basicParseA
  by_cases he : b.eof = true
  · rw [if_pos he]; exact ⟨_, rfl, wf⟩
  · rw [if_neg he]
    by_cases ho : o hp.n = true
    · rw [if_pos ho]; exact ⟨_, rfl, wf⟩
    · rw [if_neg ho]
      obtain ⟨st, es, hl, _⟩ := Stream.start_ok b.stream wf.1
      simp only [es, Res.ok_bind]
      split
      · exact ⟨_, rfl, hl, by simp [hc]⟩
      · have hw := readRestA_weak o mk (Stream.rest st) { hp with n := hp.n + 1, live := hp.live + 1 }
        cases hr : readRestA o mk (Stream.rest st) { hp with n := hp.n + 1, live := hp.live + 1 } with
        | fault w =>
          rw [hr] at hw
          exact absurd hw (Header.read_no_fault mk _ w)
        | fail h' hp' => exact ⟨_, rfl, hl, by simp [hc]⟩
        | ok r hp' =>
          obtain ⟨hh, rr⟩ := r
          rw [hr] at hw
          refine ⟨_, rfl, ?_⟩
          have hcons := Stream.header_read_consumes hw
          have hrest : (Stream.rest st).length = st.leadin.length + (Stream.src st).length := by
            rw [Stream.rest_eq, List.length_append]
          have : (Stream.advance st ((Stream.rest st).length - rr.length)).leadin.length ≤ 2 := by
            simp only [Stream.advance, List.length_drop]; omega
          exact ⟨by show (Stream.advance st ((Stream.rest st).length - rr.length)).leadin.length ≤ 24; omega,
                 fun _ => by show (Stream.advance st ((Stream.rest st).length - rr.length)).leadin.length < 22; omega⟩

theorem basicRelease_wf (b : Basic) (led : Ledger) (wf : Stream.WF b) : Stream.WF (basicRelease b led).1 := by
  unfold basicRelease
  cases hc : b.curr with
  | none => exact wf
  | some c => exact ⟨by simp [(Stream.skip_frame b.stream b.remaining).2.2.2]; exact wf.1, by simp⟩

theorem basicNextA_ok {o : Oracle} (mk : Nat → Nat) (b : Basic) (led : Ledger) (hp : Heap) (wf : Stream.WF b) :
    ∃ r, basicNextA o mk b led hp = .ok r ∧ Stream.WF r.1.1 := by
  rw [basicNextA_eq]
  exact basicParseA_ok mk _ _ hp (basicRelease_wf b led wf) (basicRelease_curr b led)

/-- **`next` never faults under allocation failure**, and keeps the lead-in invariant -/
theorem nextA_ok {o : Oracle} (a : StA) (wf : Stream.WF a.s.basic) :
    ∃ r, nextA o a = .ok r ∧ Stream.WF r.2.s.basic := by
  have wf0 : Stream.WF (closeDecoder a.s).basic := Stream.wf_closeDecoder a.s wf
  have hbas : ∀ t : St, (nextDeferred (nextPop (nextUnref t))).basic = t.basic := by
    intro t; rw [nextDeferred_basic, nextPop_basic, nextUnref_basic]
  rw [nextA_eq]
  split
  · exact ⟨_, rfl, wf0⟩
  · unfold nextAdvA
    dsimp only
    split
    · obtain ⟨r, e, hwf⟩ := basicNextA_ok (o := o) (closeDecoder a.s).mktime (closeDecoder a.s).basic
        (closeDecoder a.s).led a.hp wf0
      rw [e]
      refine ⟨_, rfl, ?_⟩
      dsimp only
      rw [hbas]; exact hwf
    · refine ⟨_, rfl, ?_⟩
      dsimp only
      rw [hbas]; exact wf0

theorem stepA_wf {o : Oracle} (a : StA) (wf : Stream.WF a.s.basic) (op : Op) :
    Stream.WF (stepA o a op).s.basic := by
  cases op with
  | next =>
    obtain ⟨r, e, hwf⟩ := nextA_ok (o := o) a wf
    simp only [stepA, e]; exact hwf
  | read k => exact (readA_sameLeadin o a k).wf wf
  | check => exact (checkA_sameLeadin o a).wf wf
  | extract b => exact (extractA_sameLeadin o a b).wf wf

/-- every `next` of every history returns, under every oracle -/
theorem nextsOk_of_wf {o : Oracle} (ops : List Op) (a : StA) (wf : Stream.WF a.s.basic) : NextsOk o a ops := by
  induction ops generalizing a with
  | nil => trivial
  | cons x ops ih =>
    cases x with
    | next =>
      obtain ⟨r, e, -⟩ := nextA_ok (o := o) a wf
      exact ⟨⟨r, e⟩, ih _ (stepA_wf a wf .next)⟩
    | read k => exact ih _ (stepA_wf a wf (.read k))
    | check => exact ih _ (stepA_wf a wf .check)
    | extract b => exact ih _ (stepA_wf a wf (.extract b))

theorem wf_freshA (st : Stream.St) (pol : DirPolicy) (mk : Nat → Nat) (hl : st.leadin.length ≤ 24) :
    Stream.WF (freshA st pol mk).s.basic := ⟨hl, fun h => by cases h⟩

/-- **`next` never faults along any history under any allocation failures** -/
theorem nextA_never_faults (o : Oracle) (st : Stream.St) (pol : DirPolicy) (mk : Nat → Nat)
    (hl : st.leadin.length ≤ 24) (ops : List Op) :
    ∃ r, nextA o (runA o (freshA st pol mk) ops) = .ok r := by
  have : ∀ (ops : List Op) (a : StA), Stream.WF a.s.basic → Stream.WF (runA o a ops).s.basic := by
    intro ops
    induction ops with
    | nil => exact fun a h => h
    | cons x ops ih => exact fun a h => ih _ (stepA_wf a h x)
  obtain ⟨r, e, -⟩ := nextA_ok (o := o) _ (this ops _ (wf_freshA st pol mk hl))
  exact ⟨r, e⟩

/-- **(c) without the `NextsOk` hypothesis** -/
theorem alloc_failure_reports' (o : Oracle) (h0 : o 0 = false) (h1 : o 1 = false) (h2 : o 2 = false)
    (st : Stream.St) (pol : DirPolicy) (mk : Nat → Nat) (hl : st.leadin.length ≤ 24)
    (pre : List Op) (op : Op) (hleg : Legal (pre ++ [op])) :
    ReportsFailure o (runA o (freshA st pol mk) pre) op :=
  alloc_failure_reports o h0 h1 h2 st pol mk pre op hleg (nextsOk_of_wf pre _ (wf_freshA st pol mk hl))

/-- **decoder objects counted exactly, without the `NextsOk` hypothesis** -/
theorem alloc_failure_decoders_exact' (o : Oracle) (h0 : o 0 = false) (h1 : o 1 = false) (h2 : o 2 = false)
    (st : Stream.St) (pol : DirPolicy) (mk : Nat → Nat) (hl : st.leadin.length ≤ 24)
    (ops : List Op) (hleg : Legal ops) : InvD (runA o (freshA st pol mk) ops).s :=
  alloc_failure_decoders_exact o h0 h1 h2 st pol mk ops hleg (nextsOk_of_wf ops _ (wf_freshA st pol mk hl))

/-- **a header handed out under allocation failures is the header of the fault-free parse**:
whatever fails, `lha_file_header_read` returns NULL or exactly what it returns without failures -/
theorem header_under_failure (o : Oracle) (mk : Nat → Nat) (inp : Bytes) (hp hp' : Heap)
    (r : Header.Hdr × Bytes) (e : Alloc.readA o mk inp hp = .ok r hp') : Header.read mk inp = .ok r := by
  have := readA_weak o mk inp hp
  rw [e] at this; exact this

theorem header_never_faults (o : Oracle) (mk : Nat → Nat) (inp : Bytes) (hp : Heap) (w : String) :
    Alloc.readA o mk inp hp ≠ .fault w := by
  intro e
  have := readA_weak o mk inp hp
  rw [e] at this
  exact Header.read_no_fault mk inp w this

end LhasaV.Reader
