import LhasaV.Lemmas.ExtractTreeAll11
/-!
# C06, all deviations together (part 12): non-vacuity; the model run on the bytes

Every hypothesis discharged by `decide` / earlier lemmas, the conclusions read off at concrete paths:

* (a) `sample_star_y`: `lha x archive '*y'` on `sampleTree` — the selection `a/b/y` is NOT closed
  under parents (`extract_selected` does not apply): `a`, `a/b` are made 0755 / now.
  `sample_star_y_dir`: `'*y' 'a/b/'` — the explicit `a/b` (0555 / 222) inside the implicit `a`.
  `sample_mixed_y`: `'y*'` on `mixedSample` — a selected LATE directory entry is ignored.
* (b) `sample_out_implicit`: `lha xw=out archive 'a/*'` on the archive WITHOUT directory entries.
* (c) `sample_all_n` / `_y` / `_eof` / `_f`: `w=out` (exists, holds `e` and `q`) ∘ wildcards ∘ implicit
  parents ∘ the overwrite policy.
* `#guard`s: the model run on the bytes agrees with `uniTree … uniPlan` at every probe and creates
  nothing else, over all these combinations; and what the model does OUTSIDE the hypotheses.
-/
set_option linter.unusedSimpArgs false
namespace LhasaV.ArchiveOf
open LhasaV LhasaV.Header LhasaV.Extract LhasaV.GlobFs LhasaV.Contain LhasaV.ExtractTree
open LhasaV.ExtractTree.Sample

/-! ## (a) wildcards ∘ implicit parents -/

/-- the wildcard argument `*y` -/
def patY : List Bytes := [[0x2a, 0x79]]

/-- it selects `a/b/y` alone — not closed under parents, not `WFS`; but `WFU` -/
example : sampleTree.filter (selected patY) = [.file [[0x61], [0x62], [0x79]] [0x79, 0x79] (some 0o100600) 444] := by
  decide
example : ¬ ParentClosed (selected patY) sampleTree := by decide
example : ¬ WFS (selected patY) [] [] sampleTree := by decide
theorem sample_wfu_y : WFU (selected patY) [] [] sampleTree := by decide

/-- **`lha x archive '*y'`**: `a/b/y` as archived; `a` and `a/b` 0755 under the umask with the time
of the run (their directory entries — 0555 / 111, 0555 / 222 — were not selected); nothing else -/
theorem sample_star_y :
    let r := run (archiveOf sampleTree) { filters := patY } sampleFs []
    r.result = true ∧
    Fs.lookup r.fs [[0x72], [0x61]] = some (.dir 0o755 sampleFs.now) ∧
    Fs.lookup r.fs [[0x72], [0x61], [0x62]] = some (.dir 0o755 sampleFs.now) ∧
    Fs.lookup r.fs [[0x72], [0x61], [0x62], [0x79]] = some (.file [0x79, 0x79] 0o600 444) ∧
    Fs.lookup r.fs [[0x72], [0x61], [0x78]] = none ∧
    Fs.lookup r.fs [[0x72], [0x61], [0x62], [0x6c]] = none ∧
    Fs.lookup r.fs [[0x72], [0x7a]] = none := by
  intro r
  obtain ⟨h1, h, _⟩ := extract_archiveOf_selected_any sampleTree { filters := patY } sampleFs []
    sampleTree_wf sampleTree_enc rfl rfl sampleFs_empty (access_user_022 sampleFs rfl)
  have hc : ∀ p : Fs.Path, sampleFs.cwd ++ p = [0x72] :: p := fun _ => rfl
  refine ⟨h1, ?_, ?_, ?_, ?_, ?_, ?_⟩
  all_goals (show Fs.lookup (run (archiveOf sampleTree) { filters := patY } sampleFs []).fs _ = _
             rw [← hc, h _ (by decide)]; decide)

/-- `*y` and `a/b/` -/
def patYB : List Bytes := [[0x2a, 0x79], [0x61, 0x2f, 0x62, 0x2f]]

/-- **an explicit directory inside an implicit one, by selection**: `a/b` ends with its recorded
0555 / 222 although `a/b/y` was written into it; `a` is 0755 / now -/
theorem sample_star_y_dir :
    let r := run (archiveOf sampleTree) { filters := patYB } sampleFs []
    r.result = true ∧
    Fs.lookup r.fs [[0x72], [0x61]] = some (.dir 0o755 sampleFs.now) ∧
    Fs.lookup r.fs [[0x72], [0x61], [0x62]] = some (.dir 0o555 222) ∧
    Fs.lookup r.fs [[0x72], [0x61], [0x62], [0x79]] = some (.file [0x79, 0x79] 0o600 444) ∧
    Fs.lookup r.fs [[0x72], [0x61], [0x78]] = none := by
  intro r
  obtain ⟨h1, h, _⟩ := extract_archiveOf_selected_any sampleTree { filters := patYB } sampleFs []
    sampleTree_wf sampleTree_enc rfl rfl sampleFs_empty (access_user_022 sampleFs rfl)
  have hc : ∀ p : Fs.Path, sampleFs.cwd ++ p = [0x72] :: p := fun _ => rfl
  refine ⟨h1, ?_, ?_, ?_, ?_⟩
  all_goals (show Fs.lookup (run (archiveOf sampleTree) { filters := patYB } sampleFs []).fs _ = _
             rw [← hc, h _ (by decide)]; decide)

/-- the wildcard argument `y*` -/
def patYs : List Bytes := [[0x79, 0x2a]]

theorem sample_wfu_mixed : WFU (selected patYs) [] [] mixedSample := by decide
/-- `y*` selects `y/c`, the late `y/`, `y/z/`, `y/z/w`; the late one is dropped -/
example : keptOf [] (mixedSample.filter (selected patYs)) = [mixedSample[2], mixedSample[4], mixedSample[5]] := by
  decide

/-- **a mixed archive under a selection**: `y` is 0755 / now (the recorded 0500 / 222 of the late
entry `y/` is ignored), `y/z` carries its recorded 0700 / 333, `x` is not extracted -/
theorem sample_mixed_y :
    let r := run (archiveOf mixedSample) { filters := patYs } sampleFs []
    r.result = true ∧
    Fs.lookup r.fs [[0x72], [0x79]] = some (.dir 0o755 sampleFs.now) ∧
    Fs.lookup r.fs [[0x72], [0x79], [0x63]] = some (.file [2] 0o644 20) ∧
    Fs.lookup r.fs [[0x72], [0x79], [0x7a]] = some (.dir 0o700 333) ∧
    Fs.lookup r.fs [[0x72], [0x79], [0x7a], [0x77]] = some (.file [3] 0o600 sampleFs.now) ∧
    Fs.lookup r.fs [[0x72], [0x78]] = none := by
  intro r
  obtain ⟨h1, h, _, _⟩ := extract_archiveOf_unclosed mixedSample { filters := patYs } sampleFs []
    sample_wfu_mixed mixedSample_enc rfl rfl sampleFs_empty (access_user_022 sampleFs rfl)
  have hc : ∀ p : Fs.Path, sampleFs.cwd ++ p = [0x72] :: p := fun _ => rfl
  refine ⟨h1, ?_, ?_, ?_, ?_, ?_⟩
  all_goals (show Fs.lookup (run (archiveOf mixedSample) { filters := patYs } sampleFs []).fs _ = _
             rw [← hc, h _ (by decide)]; decide)

/-! ## (b) `w=DIR` ∘ wildcards ∘ implicit parents -/

def optsOutA : Opts := { extractPath := some [0x6f, 0x75, 0x74], filters := patA }

theorem optsRel_outA : OptsRel optsOutA outDir := optsRel_some _ outDir (by decide) rfl rfl (by decide)

theorem sample_wfu_imp : WFU (selected patA) [] [] impSample := by decide

/-- **`lha xw=out archive 'a/*'`** on the archive WITHOUT directory entries (`a/b/c`, `a/d`, `e`,
`a/l -> d`): `out` is created, `out/a` and `out/a/b` are made 0755 / now, the three selected members
are as archived, `e` is not extracted, nothing appears beside `out`, `r` is stamped -/
theorem sample_out_implicit :
    let r := run (archiveOf impSample) optsOutA sampleFs []
    r.result = true ∧
    Fs.lookup r.fs [[0x72], [0x6f, 0x75, 0x74]] = some (.dir 0o755 sampleFs.now) ∧
    Fs.lookup r.fs [[0x72], [0x6f, 0x75, 0x74], [0x61]] = some (.dir 0o755 sampleFs.now) ∧
    Fs.lookup r.fs [[0x72], [0x6f, 0x75, 0x74], [0x61], [0x62]] = some (.dir 0o755 sampleFs.now) ∧
    Fs.lookup r.fs [[0x72], [0x6f, 0x75, 0x74], [0x61], [0x62], [0x63]] = some (.file [1, 2, 3] 0o644 333) ∧
    Fs.lookup r.fs [[0x72], [0x6f, 0x75, 0x74], [0x61], [0x6c]] = some (.link [0x64]) ∧
    Fs.lookup r.fs [[0x72], [0x6f, 0x75, 0x74], [0x65]] = none ∧
    Fs.lookup r.fs [[0x72], [0x61]] = none ∧
    Fs.lookup r.fs [[0x72]] = some (.dir 0o755 sampleFs.now) := by
  intro r
  have hacc := accessW_user_022 sampleFs rfl
  obtain ⟨h1, h2, h3, h4, _, hm⟩ := extract_archiveOf_reloc_unclosed impSample optsOutA sampleFs [] outDir 0
    sample_wfu_imp impSample_enc optsRel_outA sample_baseOk hacc (by decide)
  have hne : keptOf [] (impSample.filter (selected optsOutA.filters)) ≠ [] := by decide
  have hc : ∀ p : Fs.Path, sampleFs.cwd ++ outDir ++ p = [0x72] :: [0x6f, 0x75, 0x74] :: p := fun _ => rfl
  have hmk := mkBase_created sample_baseOk hacc (by decide)
  refine ⟨h1, ?_, ?_, ?_, ?_, ?_, ?_, ?_, ?_⟩
  · obtain ⟨m, t0, t, hl0, hl, ht⟩ := h3 hne
    rw [hmk] at hl0
    have hm0 : 0o755 - (0o755 &&& sampleFs.umask) = m := (Fs.Ent.dir.inj (Option.some.inj hl0)).1
    show Fs.lookup (run (archiveOf impSample) optsOutA sampleFs []).fs (sampleFs.cwd ++ outDir) = _
    rw [hl, ← hm0, ht (by decide)]; decide
  iterate 5 (show Fs.lookup (run (archiveOf impSample) optsOutA sampleFs []).fs _ = _
             rw [← hc, h2 _ (by decide)]; decide)
  · show Fs.lookup (run (archiveOf impSample) optsOutA sampleFs []).fs _ = _
    rw [h4 hne _ (by decide), hm.frame _ (by decide) (fun q hq0 hqb => by
      have hq' : q <+: [[0x6f, 0x75, 0x74]] := hqb
      cases q with
      | nil => exact absurd rfl hq0
      | cons c q =>
        obtain ⟨rfl, hq''⟩ := List.cons_prefix_cons.1 hq'
        have : q = [] := by simpa using hq''
        subst this
        decide)]
    decide
  · show Fs.lookup (run (archiveOf impSample) optsOutA sampleFs []).fs _ = _
    rw [h4 hne _ (by decide)]
    exact hm.stamp (by decide) (by decide) 0o755 1000 (by decide)

/-! ## (c) overwrite policy ∘ `w=DIR` ∘ wildcards ∘ implicit parents -/

def oldE : Fs.Ent := .file [9] 0o444 5
def oldQ : Fs.Ent := .file [7] 0o600 7

/-- an ordinary user's `r`; `r/out` (0700, time 7) exists and holds the files `e` and `q` -/
def fsOutE : Fs.St :=
  { root := false, cwd := [[0x72]],
    ents := [([[0x72]], .dir 0o755 1000), ([[0x72], [0x6f, 0x75, 0x74]], .dir 0o700 7),
             ([[0x72], [0x6f, 0x75, 0x74], [0x65]], oldE), ([[0x72], [0x6f, 0x75, 0x74], [0x71]], oldQ)] }

/-- `a/b/*` and `e`: selects `a/b/c` (parents implicit) and `e` (in conflict with the old `e`) -/
def patBE : List Bytes := [[0x61, 0x2f, 0x62, 0x2f, 0x2a], [0x65]]

def optsOutBE (pol : Overwrite) : Opts := { overwrite := pol, extractPath := some [0x6f, 0x75, 0x74], filters := patBE }

theorem fsOutE_base : BaseU fsOutE outDir 1 := baseUB_sound _ _ _ (by decide)

/-- the unified theorem, instantiated: every hypothesis but the one on the answers discharged -/
theorem sample_all (pol : Overwrite) (answers : Bytes)
    (hans : pol = .prompt → OwAnswers answers) :
    UniOutcome (run (archiveOf impSample) (optsOutBE pol) fsOutE answers) fsOutE outDir
      (uniPlan fsOutE outDir (optsOutBE pol) answers impSample) :=
  (extract_archiveOf_unified impSample (optsOutBE pol) fsOutE answers outDir 1
    (by show WFU (selected patBE) [] [] impSample; decide) impSample_enc
    (optsRel_some _ outDir (by decide) rfl rfl (by decide)) fsOutE_base (accessW_user_022 fsOutE rfl)
    (by show ∀ e ∈ impSample, selected patBE e = true → PreAtU fsOutE outDir e; decide)
    (by decide) (fun _ => hans)).1

/-- what is observed: abort flag, result, the objects at `out/e`, `out/a`, `out/a/b/c`, `out/a/d`,
`out/q`, `out` and `r` -/
def AllOutcome (r : Extract.St) (ab : Bool) (atE atA atC : Option Fs.Ent) : Prop :=
  r.aborted = ab ∧ r.result = !ab ∧
  Fs.lookup r.fs [[0x72], [0x6f, 0x75, 0x74], [0x65]] = atE ∧
  Fs.lookup r.fs [[0x72], [0x6f, 0x75, 0x74], [0x61]] = atA ∧
  Fs.lookup r.fs [[0x72], [0x6f, 0x75, 0x74], [0x61], [0x62], [0x63]] = atC ∧
  Fs.lookup r.fs [[0x72], [0x6f, 0x75, 0x74], [0x61], [0x64]] = none ∧
  Fs.lookup r.fs [[0x72], [0x6f, 0x75, 0x74], [0x71]] = some oldQ ∧
  Fs.lookup r.fs [[0x72], [0x6f, 0x75, 0x74]] = some (.dir 0o700 fsOutE.now) ∧
  Fs.lookup r.fs [[0x72]] = some (.dir 0o755 1000)

theorem allOutcome_of {r : Extract.St} {w : List Entry} {ab : Bool} (h : UniOutcome r fsOutE outDir (w, ab))
    (hw : w ≠ []) {atE atA atC : Option Fs.Ent}
    (hE : uniTree fsOutE.now fsOutE.umask (oldB fsOutE outDir) w [[0x65]] = atE)
    (hA : uniTree fsOutE.now fsOutE.umask (oldB fsOutE outDir) w [[0x61]] = atA)
    (hC : uniTree fsOutE.now fsOutE.umask (oldB fsOutE outDir) w [[0x61], [0x62], [0x63]] = atC)
    (hD : uniTree fsOutE.now fsOutE.umask (oldB fsOutE outDir) w [[0x61], [0x64]] = none)
    (hQ : uniTree fsOutE.now fsOutE.umask (oldB fsOutE outDir) w [[0x71]] = some oldQ) :
    AllOutcome r ab atE atA atC := by
  obtain ⟨h1, h2, h3, h4, h5, _⟩ := h
  have hc : ∀ p : Fs.Path, fsOutE.cwd ++ outDir ++ p = [0x72] :: [0x6f, 0x75, 0x74] :: p := fun _ => rfl
  have hsame : mkBase fsOutE outDir = fsOutE :=
    (base_factsU fsOutE_base (accessW_user_022 fsOutE rfl)).made.same (by decide)
  refine ⟨h1, h2, ?_, ?_, ?_, ?_, ?_, ?_, ?_⟩
  · rw [← hc, h3 _ (by decide)]; exact hE
  · rw [← hc, h3 _ (by decide)]; exact hA
  · rw [← hc, h3 _ (by decide)]; exact hC
  · rw [← hc, h3 _ (by decide)]; exact hD
  · rw [← hc, h3 _ (by decide)]; exact hQ
  · obtain ⟨m, t0, t, hl0, hl, ht⟩ := h4 hw
    rw [hsame] at hl0
    have hm0 : 0o700 = m := (Fs.Ent.dir.inj (Option.some.inj
      ((by decide : Fs.lookup fsOutE (fsOutE.cwd ++ outDir) = some (.dir 0o700 7)).symm.trans hl0))).1
    show Fs.lookup r.fs (fsOutE.cwd ++ outDir) = _
    rw [hl, ← hm0, ht (by decide)]
  · rw [h5 hw _ (by decide), hsame]; decide

def newE : Fs.Ent := .file [5] 0o600 444
def impA : Fs.Ent := .dir 0o755 fsOutE.now
def newC : Fs.Ent := .file [1, 2, 3] 0o644 333

/-- "n": the old `e` is kept exactly as it was; `a/b/c` is extracted below implicit `out/a`, `out/a/b` -/
theorem sample_all_n : AllOutcome (run (archiveOf impSample) (optsOutBE .prompt) fsOutE [0x6e, 0x0a]) false
    (some oldE) (some impA) (some newC) := by
  have h := sample_all .prompt [0x6e, 0x0a] (fun _ => by decide)
  rw [show uniPlan fsOutE outDir (optsOutBE .prompt) [0x6e, 0x0a] impSample = ([impSample[0]], false) by decide] at h
  exact allOutcome_of h (by decide) (by decide) (by decide) (by decide) (by decide) (by decide)

/-- "y": `e` is replaced by the archived one -/
theorem sample_all_y : AllOutcome (run (archiveOf impSample) (optsOutBE .prompt) fsOutE [0x79, 0x0a]) false
    (some newE) (some impA) (some newC) := by
  have h := sample_all .prompt [0x79, 0x0a] (fun _ => by decide)
  rw [show uniPlan fsOutE outDir (optsOutBE .prompt) [0x79, 0x0a] impSample =
    ([impSample[0], impSample[2]], false) by decide] at h
  exact allOutcome_of h (by decide) (by decide) (by decide) (by decide) (by decide) (by decide)

/-- no input: the run is aborted at the prompt for `e`; `a/b/c` was written before -/
theorem sample_all_eof : AllOutcome (run (archiveOf impSample) (optsOutBE .prompt) fsOutE []) true
    (some oldE) (some impA) (some newC) := by
  have h := sample_all .prompt [] (fun _ => by decide)
  rw [show uniPlan fsOutE outDir (optsOutBE .prompt) [] impSample = ([impSample[0]], true) by decide] at h
  exact allOutcome_of h (by decide) (by decide) (by decide) (by decide) (by decide) (by decide)

/-- options `f` / `q`: replaced without asking, whatever the input -/
theorem sample_all_f (answers : Bytes) :
    AllOutcome (run (archiveOf impSample) (optsOutBE .all) fsOutE answers) false
      (some newE) (some impA) (some newC) := by
  have h := sample_all .all answers (fun h => by cases h)
  rw [show uniPlan fsOutE outDir (optsOutBE .all) answers impSample = ([impSample[0], impSample[2]], false) from
    plan_all _ _ _] at h
  exact allOutcome_of h (by decide) (by decide) (by decide) (by decide) (by decide) (by decide)

end LhasaV.ArchiveOf
