import LhasaV.Lemmas.ExtractTreeImp5
/-!
# C06 with implicit parents (part 6): `WellFormed` archives are a special case

`wfi_of_wf`: the directory-first discipline `WellFormed` (ExtractTree7: an explicit directory
entry for EVERY parent) implies the order `WFI`, no entry is late, and no directory is implicit
(`impTreeOf = treeOf`).  So `run_tree_mixed` contains `run_tree` (ExtractTree13).
-/
namespace LhasaV.ExtractTree
open LhasaV LhasaV.Header LhasaV.Extract LhasaV.GlobFs LhasaV.Contain

/-- what `WF` maintains about the open directories and the paths seen -/
structure WfInv (stk seen : List Fs.Path) : Prop where
  chain : Chain stk
  sub : ∀ t ∈ stk, t ∈ seen
  closed : ∀ p ∈ seen, ∀ q, q ≠ [] → q <+: p → q ∈ seen
  nonnil : [] ∉ seen

theorem mem_popStk {stk : List Fs.Path} {d t : Fs.Path} (h : t ∈ popStk stk d) : t ∈ stk :=
  (List.dropWhile_sublist _).subset h

theorem wfi_of_wf_aux : ∀ (es : List Entry) (stk seen : List Fs.Path), WF stk seen es → WfInv stk seen →
    WFI stk seen es ∧ keptOf seen es = es ∧
    (∀ p ∈ seen ++ es.map Entry.path, ∀ q, q ≠ [] → q <+: p → q ∈ seen ++ es.map Entry.path) := by
  intro es
  induction es with
  | nil =>
    intro stk seen _ hi
    exact ⟨trivial, rfl, by simpa using hi.closed⟩
  | cons e es ih =>
    intro stk seen hwf hi
    obtain ⟨hk, hnew, hpar, hwf'⟩ := hwf
    have hcp : Chain (popStk stk e.dirPart) := hi.chain.dropWhile _ _
    have hfresh : ∀ p ∈ seen, ¬ e.path <+: p :=
      fun p hp h => hnew (hi.closed p hp e.path hk.ne h)
    have hnl : lateDir seen e = false := by
      unfold lateDir
      have : seen.any (fun p => decide (e.path <+: p)) = false := by
        rw [List.any_eq_false]; intro p hp; simpa using hfresh p hp
      rw [this, Bool.and_false]
    have hanc : ∀ q, q ≠ [] → q <+: e.path → q ≠ e.path → q ∈ popStk stk e.dirPart :=
      pre_mem_of_parent hcp e.path hpar
    have hi' : WfInv (if e.isDir then e.path :: popStk stk e.dirPart else popStk stk e.dirPart)
        (seen ++ [e.path]) := by
      refine ⟨?_, ?_, ?_, by simpa using ⟨hi.nonnil, fun h => hk.ne h⟩⟩
      · cases e.isDir with
        | true => exact ⟨hk.ne, hpar.symm, hcp⟩
        | false => exact hcp
      · intro t ht
        have : t = e.path ∨ t ∈ popStk stk e.dirPart := by
          cases hd : e.isDir with
          | true => rw [hd] at ht; simpa using ht
          | false => rw [hd] at ht; exact Or.inr (by simpa using ht)
        rcases this with rfl | h
        · simp
        · exact List.mem_append_left _ (hi.sub t (mem_popStk h))
      · intro p hp q hq hqp
        rcases List.mem_append.1 hp with hp | hp
        · exact List.mem_append_left _ (hi.closed p hp q hq hqp)
        · have : p = e.path := by simpa using hp
          subst this
          by_cases hqe : q = e.path
          · rw [hqe]; simp
          · exact List.mem_append_left _ (hi.sub q (mem_popStk (hanc q hq hqp hqe)))
    obtain ⟨h1, h2, h3⟩ := ih _ _ hwf' hi'
    refine ⟨⟨hk, ?_, ?_⟩, ?_, ?_⟩
    · intro p hp hpe
      have hne : p ≠ e.path := fun h => hnew (h ▸ hp)
      have h0 : p ≠ [] := fun h => hi.nonnil (h ▸ hp)
      exact hanc p h0 hpe hne
    · simp only [hnl, Bool.false_eq_true, if_false]
      exact ⟨hfresh, h1⟩
    · simp only [keptOf, hnl, Bool.false_eq_true, if_false, h2]
    · simpa [List.append_assoc] using h3

/-- **a well-formed archive is in the order `WFI`**; nothing is late, nothing is implicit -/
theorem wfi_of_wf {es : List Entry} (h : WellFormed es) :
    WFI [] [] es ∧ keptOf [] es = es ∧
    ∀ now umask p, p ≠ [] → impTreeOf now umask es p = treeOf now umask es p := by
  obtain ⟨h1, h2, h3⟩ := wfi_of_wf_aux es [] [] h
    ⟨trivial, fun t ht => (by cases ht), fun p hp => (by cases hp), by simp⟩
  refine ⟨h1, h2, ?_⟩
  intro now umask p hp
  unfold impTreeOf
  cases ht : treeOf now umask es p with
  | some x => rfl
  | none =>
    have hany : es.any (fun e => decide (p <+: e.path)) = false := by
      rw [List.any_eq_false]
      intro e he
      simp only [decide_eq_true_eq]
      intro hpe
      have := h3 e.path (by simpa using List.mem_map.2 ⟨e, he, rfl⟩) p hp hpe
      simp only [List.nil_append] at this
      obtain ⟨a, hae, hap⟩ := List.mem_map.1 this
      unfold treeOf at ht
      have hf : es.find? (fun x => x.path == p) = none := by
        cases hf : es.find? (fun x => x.path == p) with
        | none => rfl
        | some y => rw [hf] at ht; cases ht
      rw [List.find?_eq_none] at hf
      exact hf a hae (by simp [hap])
    simp [hany]

/-- `run_tree` (ExtractTree13) from `run_tree_mixed` -/
theorem run_tree_of_mixed (archive : Array UInt8) (o : Opts) (fs : Fs.St) (answers : Bytes) (es : List Entry)
    (ho : OptsOk o) (hfs : EmptyDir fs) (ha : Access fs) (hwf : WellFormed es)
    (hfuel : 2 * es.length + 1 ≤ runFuel archive)
    (hden : DenotesF (runFuel archive) (runInit archive o fs answers) es) :
    (run archive o fs answers).result = true ∧
    (∀ p, p ≠ [] → Fs.lookup (run archive o fs answers).fs (fs.cwd ++ p) = treeOf fs.now fs.umask es p) ∧
    (∀ x, ¬ fs.cwd <+: x → Fs.lookup (run archive o fs answers).fs x = Fs.lookup fs x) := by
  obtain ⟨w1, w2, w3⟩ := wfi_of_wf hwf
  obtain ⟨h1, h2, _, h4⟩ := run_tree_mixed archive o fs answers es ho hfs ha w1 hfuel hden
  rw [w2] at h2
  exact ⟨h1, fun p hp => (h2 p hp).trans (w3 _ _ p hp), h4⟩

end LhasaV.ExtractTree
