import LhasaV.Lemmas.ToolNoFault2
import LhasaV.Lemmas.Contain5
/-!
# C08 at tool level, part 3: the whole run of `lha x` / `lha e`

* `Hist archive rd`: `rd` is what the reader the tool opens on `archive` becomes after some LEGAL
  history (`Reader.Legal`: between two `next`s nothing, or only reads, or one check, or one extract —
  the domain on which the reader model is exact).  Every reader state of the tool's loops is of this
  form (`extractLoop_visits`), so every theorem about histories from a fresh reader applies to it;
  in particular `Hist.sound`: `next` does not fault, header ownership holds, no decoder fault is
  hidden in the state.
* `Visits P fuel s`: along `extractLoop fuel s` no `lha_reader_next_file` is an `.error`, and `P`
  holds of the reader state at the top of every iteration, after every `next`, after every
  extraction.
* `extract_run_visits`, `extract_run_no_fault`.
-/
set_option linter.unusedSimpArgs false
namespace LhasaV.ToolNoFault
open LhasaV LhasaV.Header LhasaV.Extract LhasaV.Reader

/-! ## histories of the tool's reader -/

/-- the reader `lha` opens on the archive file -/
def toolReader (archive : Array UInt8) : Reader.St :=
  fresh { kind := .seekable, data := archive } .endOfDir Header.dosTimeUTC

theorem legalFrom_append_next (seg : List Op) : ∀ (a : List Op) (p : Phase), legalFrom p a = true →
    legalFrom p (a ++ .next :: seg) = legalFrom .fresh seg := by
  intro a
  induction a with
  | nil => intro p _; cases p <;> rfl
  | cons op a ih =>
    intro p h
    cases op <;> cases p <;> first
      | exact ih _ h
      | (simp [legalFrom] at h)

/-- `rd` = the tool's reader after a legal history -/
def Hist (archive : Array UInt8) (rd : Reader.St) : Prop :=
  ∃ ops, Legal ops ∧ rd = run (toolReader archive) ops

/-- `rd` = the tool's reader after a legal history, a `next`, and then the operations `seg` -/
def HistSeg (archive : Array UInt8) (seg : List Op) (rd : Reader.St) : Prop :=
  ∃ a, Legal a ∧ rd = run (toolReader archive) (a ++ .next :: seg)

theorem hist_init (archive : Array UInt8) : Hist archive (toolReader archive) := ⟨[], rfl, rfl⟩

theorem HistSeg.hist {A : Array UInt8} {seg : List Op} {rd : Reader.St} (h : HistSeg A seg rd)
    (hseg : legalFrom .fresh seg = true) : Hist A rd := by
  obtain ⟨a, ha, e⟩ := h
  exact ⟨a ++ .next :: seg, by unfold Legal; rw [legalFrom_append_next seg a _ ha]; exact hseg, e⟩

theorem HistSeg.step {A : Array UInt8} {seg : List Op} {rd : Reader.St} (h : HistSeg A seg rd) (op : Op) :
    HistSeg A (seg ++ [op]) (step rd op) := by
  obtain ⟨a, ha, e⟩ := h
  refine ⟨a, ha, ?_⟩
  have : a ++ .next :: (seg ++ [op]) = (a ++ .next :: seg) ++ [op] := by simp
  rw [this, run_append, ← e]; rfl

/-- every state of a history is `Sound` -/
theorem Hist.sound {A : Array UInt8} {rd : Reader.St} (h : Hist A rd) : Sound rd := by
  obtain ⟨ops, _, e⟩ := h
  rw [e]
  exact run_sound (sound_fresh _ _ _ (Nat.zero_le _)) ops

theorem Hist.next {A : Array UInt8} {rd rd' : Reader.St} {oc : Option HObj} (h : Hist A rd)
    (e : Reader.next rd = .ok (oc, rd')) : HistSeg A [] rd' := by
  obtain ⟨ops, hl, e0⟩ := h
  refine ⟨ops, hl, ?_⟩
  rw [run_append, ← e0]
  simp only [run_cons, run_nil, step, e]

/-- what the loops need of a visited reader state -/
def Ok (A : Array UInt8) (rd : Reader.St) : Prop := Hist A rd ∧ Inv rd ∧ DecClean rd

theorem Hist.ok {A : Array UInt8} {rd : Reader.St} (h : Hist A rd) : Ok A rd :=
  ⟨h, h.sound.good.inv, h.sound.clean⟩

/-! ## `lha_reader_extract`, `extract_archived_file` -/

/-- the reader half of `readerExtract` is at most one `extract` operation -/
theorem readerExtract_hist {A : Array UInt8} {rd : Reader.St} (h : HistSeg A [] rd) (fs : Fs.St)
    (fn : Bytes) : Hist A (readerExtract rd fs fn).2.1 := by
  have h0 : Hist A rd := h.hist rfl
  have h1 : ∀ b, Hist A (Reader.extract rd b).2 := fun b => (h.step (.extract b)).hist rfl
  unfold readerExtract
  split <;> (try simp only) <;> repeat' split
  all_goals first
    | exact h0
    | exact h1 _

theorem eaf_hist {A : Array UInt8} {s : Extract.St} (h : HistSeg A [] s.rd) (hd : Hdr) :
    Hist A (extractArchivedFile s hd).rd := by
  rcases Contain.eaf_cases s hd with ⟨_, h2⟩ | ⟨_, h2⟩ | ⟨_, h2⟩
  · rw [h2]; exact h.hist rfl
  · rw [h2]; exact h.hist rfl
  · rw [h2]; exact readerExtract_hist h _ _

theorem preOf_out (s : Extract.St) (h : Hdr) (b : Bool) (s' : Extract.St)
    (hp : Contain.preOf s h = some (b, s')) : s'.out = s.out := by
  unfold Contain.preOf at hp
  split at hp
  · split at hp
    · cases hp
    · injection hp with hp; injection hp with _ hp; subst hp; rfl
    · split at hp
      · cases hp
      · injection hp with hp; injection hp with _ hp; subst hp; rfl
  · injection hp with hp; injection hp with _ hp; subst hp; rfl

/-- `extract_archived_file` logs one of its own six outcome tokens: never "fault" -/
theorem eaf_out (s : Extract.St) (h : Hdr) (hs : "fault" ∉ s.out) :
    "fault" ∉ (extractArchivedFile s h).out := by
  rw [Contain.eaf_eq]
  split
  · simp only [List.mem_cons, not_or]; exact ⟨by decide, hs⟩
  · rename_i s' hp
    rw [preOf_out s h _ s' hp] at *
    simp only [List.mem_cons, not_or]; exact ⟨by decide, hs⟩
  · rename_i s' hp
    have e := preOf_out s h _ s' hp
    split
    · simp only [List.mem_cons, not_or, e]; exact ⟨by decide, hs⟩
    · simp only
      split
      · simp only [List.mem_cons, not_or, e]; exact ⟨by decide, hs⟩
      · simp only [List.mem_cons, not_or, e]
        refine ⟨?_, hs⟩
        split <;> decide

/-! ## the loop -/

/-- along `extractLoop fuel s`: no `lha_reader_next_file` returns `.error`, and the reader state
satisfies `P` at the top of every iteration, after every `next` and after every extraction -/
def Visits (P : Reader.St → Prop) : Nat → Extract.St → Prop
  | 0, s => P s.rd
  | fuel+1, s =>
    P s.rd ∧
    (if s.aborted then True else
     match Reader.next s.rd with
     | .error _ => False
     | .ok (none, rd) => P rd
     | .ok (some c, rd) =>
       P rd ∧
       (if !Glob.matchesFilter s.opts.filters c.h then Visits P fuel { s with rd := rd }
        else Visits P fuel (extractArchivedFile { s with rd := rd } c.h)))

/-- a run without faulting `next` never logs "fault" -/
theorem visits_out {P : Reader.St → Prop} : ∀ (fuel : Nat) (s : Extract.St), Visits P fuel s →
    "fault" ∉ s.out → "fault" ∉ (extractLoop fuel s).out := by
  intro fuel
  induction fuel with
  | zero => intro s _ h; exact h
  | succ n ih =>
    intro s hv hs
    rw [Visits] at hv
    unfold extractLoop
    split
    · exact hs
    · rename_i ha
      rw [if_neg ha] at hv
      have hv := hv.2
      split
      · rename_i w hn; rw [hn] at hv; exact hv.elim
      · exact hs
      · rename_i c rd hn
        rw [hn] at hv
        simp only at hv
        have hv := hv.2
        split
        · rename_i hf; rw [if_pos hf] at hv; exact ih _ hv hs
        · rename_i hf; rw [if_neg hf] at hv; exact ih _ hv (eaf_out _ _ hs)

/-- **every reader state of the extraction loop comes from a legal history of the tool's reader** -/
theorem extractLoop_visits (A : Array UInt8) : ∀ (fuel : Nat) (s : Extract.St), Hist A s.rd →
    Visits (Ok A) fuel s := by
  intro fuel
  induction fuel with
  | zero => intro s h; exact h.ok
  | succ n ih =>
    intro s h
    rw [Visits]
    refine ⟨h.ok, ?_⟩
    split
    · trivial
    · obtain ⟨r, hr⟩ := h.sound.next_ok
      obtain ⟨oc, rd⟩ := r
      have hseg : HistSeg A [] rd := h.next hr
      have hrd : Hist A rd := hseg.hist rfl
      rw [hr]
      cases oc with
      | none => exact hrd.ok
      | some c =>
        simp only
        refine ⟨hrd.ok, ?_⟩
        split
        · exact ih _ hrd
        · exact ih _ (eaf_hist (s := { s with rd := rd }) hseg c.h)

/-! ## `lha x` -/

theorem runInit_rd (archive : Array UInt8) (o : Opts) (fs : Fs.St) (answers : Bytes) :
    (Contain.runInit archive o fs answers).rd = toolReader archive := rfl

/-- **C08, `lha x` / `lha e`, the whole run, exposed.**  For ANY archive bytes, options (`f`, `q`,
`i`, `w=`, wildcard arguments), file-system state and prompt answers: along the whole loop of
`extract_archive` every `lha_reader_next_file` returns normally, and every reader state the loop
passes through (before and after every `next`, after every `lha_reader_extract`) is the state of a
legal history of a fresh reader, satisfies the header-ownership invariant (no use after free, no
double free), and hides no decoder fault: the decoder open at that moment is a decoder of the
method table whose totalised state is a C09-reachable state or the decoder's own error return. -/
theorem extract_run_visits (archive : Array UInt8) (o : Opts) (fs : Fs.St) (answers : Bytes) :
    Visits (Ok archive) (Contain.runFuel archive) (Contain.runInit archive o fs answers) :=
  extractLoop_visits archive _ _ (hist_init archive)

/-- **C08, `lha x` / `lha e`: no archive bytes make the run fault.**  The model logs "fault"
exactly when `lha_reader_next_file` returns `.error` (a checked access of the header parser, the
lead-in scan or the stream failed): that never happens. -/
theorem extract_run_no_fault (archive : Array UInt8) (o : Opts) (fs : Fs.St) (answers : Bytes) :
    "fault" ∉ (Extract.run archive o fs answers).out := by
  rw [Contain.run_eq]
  exact visits_out _ _ (extract_run_visits archive o fs answers) (by simp [Contain.runInit])

end LhasaV.ToolNoFault
