import LhasaV.Lemmas.ExtractTree16
/-!
# C06 — extraction reproduces the archived tree: contents, names, times, modes, links

Umbrella for `ExtractTree1` … `ExtractTree16` (namespace `LhasaV.ExtractTree`).

1. **Per-entry effect lemmas** (`ExtractTree5`): `extract_file_effect`, `extract_dir_effect`,
   `extract_link_effect`, `extract_fake_effect` — exact `lookup` of the entry's own path after
   `lha_reader_extract`, and the frame (`Created`: everything else unchanged except the parent
   directory's time, which becomes `now`; `Touched`: nothing else changes).  For root and for any
   user who may write the parent (`Fs.canModify`).
2. **`dir_meta_final`** (`ExtractTree13`): every directory entry of a well-formed archive ends with
   its recorded permission bits and modification time, although its children were written after
   it was created; `wf_contiguous`, `dir_meta_contiguous` (`ExtractTree16`): in a well-formed
   archive the entries inside a directory follow it contiguously and nothing later is inside it.
3. **`extract_tree`**, **`run_tree`** (`ExtractTree13`): extracting a well-formed archive into an
   empty directory yields exactly `treeOf es` below the extraction directory, stamps the
   extraction directory with `now`, changes nothing outside it, result `true` — files,
   directories, safe links; as root or as an ordinary user (`Access`), read-only directories
   included.
4. `Sample.dirTree_extracts` (`ExtractTree15`): all hypotheses discharged for real archive bytes.
5. Finding `extract_dir_existing` (`ExtractTree14`): a directory entry for a directory that already
   exists never gets its recorded metadata.
-/
