import LhasaV.Lemmas.ReaderAlloc4
/-!
# Allocation-aware reader, part 7: what the call in which an allocation fails reports

"An allocation failed during the call" = the failure log `hp.failed` grew.  Per operation:

* `read k`      – returns 0 bytes, no decoder is left open;
* `check`       – returns 0, no decoder is left open;
* `extract`     – returns 0, no decoder is left open, directory stack and deferred list unchanged;
* `next`        – the basic reader is at end of file without a current header, and the call reports
                  end-of-archive or hands out a pending directory / deferred symbolic link; it never
                  returns a header read from the stream (no allocation failure is swallowed).
-/
namespace LhasaV.Reader
open LhasaV LhasaV.Alloc

theorem allocAt_log (o : Oracle) (site : Site) (hp : Heap) :
    ((allocAt o site hp).1 = true ∧ (allocAt o site hp).2.failed = hp.failed) ∨
    ((allocAt o site hp).1 = false ∧ (allocAt o site hp).2.failed = site :: hp.failed) := by
  unfold allocAt; split
  · exact Or.inr ⟨rfl, rfl⟩
  · exact Or.inl ⟨rfl, rfl⟩

theorem cons_ne_self {α : Type} (x : α) (l : List α) : x :: l ≠ l := by
  intro h; have := congrArg List.length h; simp at this

theorem cons_cons_ne_self {α : Type} (x y : α) (l : List α) : x :: y :: l ≠ l := by
  intro h; have := congrArg List.length h; simp at this; omega

/-- `open_decoder`: success means no allocation failed and a decoder is open; an allocation
failure means failure and (if none was open before) no decoder open -/
theorem openDecoderA_report (o : Oracle) (a : StA) (hd : a.s.dec = none) :
    ((openDecoderA o a).1 = true → (openDecoderA o a).2.hp.failed = a.hp.failed ∧
        ∃ d, (openDecoderA o a).2.s.dec = some d ∧ (d.plain.isSome || d.mac.isSome) = true) ∧
    ((openDecoderA o a).2.hp.failed ≠ a.hp.failed →
        (openDecoderA o a).1 = false ∧ (openDecoderA o a).2.s.dec = none) ∧
    ((openDecoderA o a).1 = false → (openDecoderA o a).2.s.dec = none) := by
  unfold openDecoderA
  dsimp only
  split
  · exact ⟨fun h => Bool.noConfusion h, fun h => absurd rfl h, fun _ => hd⟩
  · split
    · exact ⟨fun h => Bool.noConfusion h, fun h => absurd rfl h, fun _ => hd⟩
    · split
      · rcases allocAt_log o .decoder a.hp with ⟨e1, l1⟩ | ⟨e1, l1⟩
        · rw [e1]
          simp only [Bool.not_true, Bool.false_eq_true, ↓reduceIte]
          split
          · rcases allocAt_log o .macDecoder (allocAt o .decoder a.hp).2 with ⟨e2, l2⟩ | ⟨e2, l2⟩
            · rw [e2]
              simp only [Bool.not_true, Bool.false_eq_true, ↓reduceIte]
              split
              · exact ⟨fun h => Bool.noConfusion h, fun _ => ⟨rfl, closeDecoder_dec _⟩, fun _ => closeDecoder_dec _⟩
              · refine ⟨fun _ => ⟨l2.trans l1, ?_⟩, fun h => absurd (l2.trans l1) h, fun h => Bool.noConfusion h⟩
                exact ⟨_, rfl, rfl⟩
            · rw [e2]
              simp only [Bool.not_false, ↓reduceIte]
              exact ⟨fun h => Bool.noConfusion h, fun _ => ⟨trivial, closeDecoder_dec _⟩, fun _ => closeDecoder_dec _⟩
          · refine ⟨fun _ => ⟨l1, ?_⟩, fun h => absurd l1 h, fun h => Bool.noConfusion h⟩
            exact ⟨_, rfl, rfl⟩
        · rw [e1]
          simp only [Bool.not_false, ↓reduceIte]
          exact ⟨fun h => Bool.noConfusion h, fun _ => ⟨trivial, hd⟩, fun _ => hd⟩
      · exact ⟨fun h => Bool.noConfusion h, fun h => absurd rfl h, fun _ => hd⟩

/-- with a decoder open, `read` allocates nothing and keeps it open -/
theorem readA_open {o : Oracle} {a : StA} {d : Open} (hd : a.s.dec = some d) (k : Nat) :
    (readA o a k).2.hp = a.hp ∧ ∃ d', (readA o a k).2.s.dec = some d' := by
  rw [readA_eq, hd]
  dsimp only
  split
  · refine ⟨rfl, ?_⟩
    show ∃ d', (readCore a.s k).2.dec = some d'
    unfold readCore
    rw [hd]
    dsimp only
    split
    · exact ⟨_, rfl⟩
    · exact ⟨_, rfl⟩
    · exact ⟨_, hd⟩
  · exact ⟨rfl, d, hd⟩

theorem decodeLoopA_open {o : Oracle} (fuel : Nat) {a : StA} {d : Open} (hd : a.s.dec = some d)
    (acc : List UInt8) :
    (decodeLoopA o fuel a acc).2.hp = a.hp ∧ ∃ d', (decodeLoopA o fuel a acc).2.s.dec = some d' := by
  induction fuel generalizing a d acc with
  | zero => exact ⟨rfl, d, hd⟩
  | succ n ih =>
    unfold decodeLoopA
    dsimp only
    obtain ⟨h1, d', h2⟩ := readA_open (o := o) hd 64
    split
    · exact ⟨h1, d', h2⟩
    · obtain ⟨h3, h4⟩ := ih h2 (acc ++ (readA o a 64).1)
      exact ⟨h3.trans h1, h4⟩

/-- **`read`**: the call in which an allocation fails returns no byte and leaves no decoder open -/
theorem readA_reports (o : Oracle) (a : StA) (k : Nat)
    (hf : (readA o a k).2.hp.failed ≠ a.hp.failed) :
    (readA o a k).1 = [] ∧ (readA o a k).2.s.dec = none := by
  cases hd : a.s.dec with
  | some d => exact absurd (congrArg Heap.failed (readA_open (o := o) hd k).1) hf
  | none =>
    obtain ⟨h1, h2, h3⟩ := openDecoderA_report o a hd
    rw [readA_eq, hd] at hf ⊢
    dsimp only at hf ⊢
    split
    · rename_i ht
      rw [if_pos ht] at hf
      exact absurd (h1 ht).1 hf
    · rename_i ht
      exact ⟨rfl, h3 (by simpa using ht)⟩

/-- **`check`** (called with no decoder open, as in every legal history): the call in which an
allocation fails returns failure and leaves no decoder open -/
theorem checkA_reports (o : Oracle) (a : StA) (hd : a.s.dec = none)
    (hf : (checkA o a).2.hp.failed ≠ a.hp.failed) :
    (checkA o a).1 = (false, []) ∧ (checkA o a).2.s.dec = none := by
  unfold checkA at hf ⊢
  by_cases ht : (a.s.currType != .normal) = true
  · rw [if_pos ht] at hf; exact absurd rfl hf
  · rw [if_neg ht] at hf ⊢
    cases hc : a.s.curr with
    | none => rw [hc] at hf; exact absurd rfl hf
    | some c =>
      rw [hc] at hf
      dsimp only at hf ⊢
      by_cases hm : (c.h.method == "-lhd-".toUTF8.toList) = true
      · rw [if_pos hm] at hf; exact absurd rfl hf
      · rw [if_neg hm] at hf ⊢
        obtain ⟨h1, h2, h3⟩ := openDecoderA_report o a hd
        by_cases hok : (openDecoderA o a).1 = true
        · have hnot : ¬ ((!(openDecoderA o a).1) = true) := by simp [hok]
          rw [if_neg hnot] at hf
          obtain ⟨hl, d, hd', -⟩ := h1 hok
          obtain ⟨hh, -⟩ := decodeLoopA_open (o := o) (c.h.length + 2) hd' []
          exact absurd ((congrArg Heap.failed hh).trans hl) hf
        · have hnot : ((!(openDecoderA o a).1) = true) := by simpa using hok
          rw [if_pos hnot]
          exact ⟨rfl, h3 (by simpa using hok)⟩

end LhasaV.Reader
