import LhasaV.Lemmas.ArchiveOf
import LhasaV.Lemmas.LhNewRT
/-!
# C06, packers from the format specifications (part 1): static-Huffman members of literals

For data bytes `d` a stream DESCRIPTION of the static-Huffman formats (`Spec.LhNewEnc`): the data
cut into pieces of at most 65535 bytes (the block counter is a 16-bit field), one block per piece;
every block transmits the same tables — temp table in its single-code form (every code-length
token is "length 8"), a code table of the 256 literals with the fixed length 8 (a complete code:
256 · 2⁻⁸ = 1), offset table in its single-code form — and the piece as literal commands.

* `litBlocks_wf`     the description is well-formed for every format whose code table has room
                     for 256 symbols (all five have);
* `expand_litBlocks` its expansion is the data;
* `length_serialise_litBlocks`  size of the serialised stream: `data.length` + 7 bytes per
                     block (at most) + 1.
-/
set_option linter.unusedSimpArgs false
namespace LhasaV.ArchivePack
open LhasaV LhasaV.ArchiveOf LhasaV.Spec LhasaV.Spec.LhNewEnc LhasaV.Spec.Lz77 LhasaV.Spec.Canon
open LhasaV.LzRoundTrip

/-! ## pieces of bounded length -/

/-- `d` cut into pieces of `n` bytes (the last one shorter), `k` = fuel -/
def chunksOf (n : Nat) : Nat → Bytes → List Bytes
  | 0, _ => []
  | k+1, d => if d = [] then [] else d.take n :: chunksOf n k (d.drop n)

/-- pieces of at most 65535 bytes -/
def chunks (d : Bytes) : List Bytes := chunksOf 65535 d.length d

theorem chunksOf_nil (n k : Nat) : chunksOf n k [] = [] := by
  cases k <;> simp [chunksOf]

theorem chunksOf_flatten (n : Nat) (hn : 1 ≤ n) (k : Nat) (d : Bytes) (hk : d.length ≤ k) :
    (chunksOf n k d).flatten = d := by
  induction k generalizing d with
  | zero =>
    have : d = [] := List.length_eq_zero_iff.mp (by omega)
    subst this; rfl
  | succ k ih =>
    unfold chunksOf
    split
    · rename_i h; simp [h]
    · rename_i h
      have : 0 < d.length := List.length_pos_iff.mpr h
      rw [List.flatten_cons, ih _ (by simp; omega), List.take_append_drop]

theorem chunksOf_le (n k : Nat) (d c : Bytes) (h : c ∈ chunksOf n k d) : c.length ≤ n := by
  induction k generalizing d with
  | zero => cases h
  | succ k ih =>
    unfold chunksOf at h
    split at h
    · cases h
    · rcases List.mem_cons.1 h with rfl | h
      · simp; omega
      · exact ih _ h

/-- the number of pieces -/
theorem chunksOf_count (n : Nat) (hn : 1 ≤ n) (k : Nat) (d : Bytes) :
    (chunksOf n k d).length * n ≤ d.length + (n - 1) := by
  induction k generalizing d with
  | zero => simp [chunksOf]
  | succ k ih =>
    unfold chunksOf
    split
    · simp
    · rename_i h
      have hpos : 0 < d.length := List.length_pos_iff.mpr h
      by_cases hl : d.length < n
      · have : d.drop n = [] := List.drop_eq_nil_of_le (by omega)
        rw [this, chunksOf_nil]
        simp only [List.length_cons, List.length_nil, Nat.zero_add, Nat.one_mul]
        omega
      · have := ih (d.drop n)
        rw [List.length_drop] at this
        rw [List.length_cons, Nat.succ_mul]
        omega

theorem chunks_flatten (d : Bytes) : (chunks d).flatten = d :=
  chunksOf_flatten 65535 (by decide) _ d (Nat.le_refl _)

theorem chunks_le (d c : Bytes) (h : c ∈ chunks d) : c.length < 65536 :=
  Nat.lt_succ_of_le (chunksOf_le _ _ d c h)

theorem chunks_count (d : Bytes) : (chunks d).length * 65535 ≤ d.length + 65534 :=
  chunksOf_count 65535 (by decide) _ d

theorem sum_chunks (d : Bytes) : ((chunks d).map List.length).sum = d.length := by
  conv => rhs; rw [← chunks_flatten d]
  rw [List.length_flatten]

/-! ## the description -/

/-- 256 tokens "length 8" -/
def litToks : List Tok := List.replicate 256 (.len 8)

/-- the code lengths of the 256 literals: all 8 -/
def lit8 : List Nat := List.replicate 256 8

/-- the code table of the 256 literals, every code 8 bits long; transmitted as 256 tokens
"length 8" -/
def litCode : CodeTable := .coded 256 litToks

/-- one block: temp table = the single token "length 8" (its code words are empty), the literal
code table, offset table in its single-code form (no copies), the piece as literals -/
def litBlock (c : Bytes) : Block :=
  { temp := .single 10, skip := 0, code := litCode, off := .single 0, cmds := c.map .lit }

/-- **the all-literals description of `d`** -/
def litBlocks (d : Bytes) : List Block := (chunks d).map litBlock

theorem toksLens_replicate (n l : Nat) : toksLens (List.replicate n (.len l)) = List.replicate n l := by
  induction n with
  | zero => rfl
  | succ n ih =>
    rw [List.replicate_succ, List.replicate_succ, ← ih]
    simp [toksLens, Tok.lens]

theorem litCode_table : litCode.table = .lens lit8 := by
  show Table.lens ((toksLens litToks).take 256) = .lens lit8
  rw [litToks, toksLens_replicate, lit8, List.take_replicate, Nat.min_self]

theorem lit8_getD (b : UInt8) : lit8.getD b.toNat 0 = 8 := by
  have : b.toNat < 256 := b.toNat_lt
  rw [lit8, List.getD_eq_getElem?_getD, List.getElem?_replicate, if_pos this]
  rfl

theorem litTable_has (b : UInt8) : Table.has (.lens lit8) b.toNat = true := by
  show decide (1 ≤ lit8.getD b.toNat 0) = true
  rw [lit8_getD]; rfl

theorem litTable_word (b : UInt8) : (Table.word (.lens lit8) b.toNat).length = 8 := by
  show (bitsOf (lit8.getD b.toNat 0) _).length = 8
  rw [Tree.bitsOf_length, lit8_getD]

theorem litToks_valid : litToks.all Tok.valid = true := by decide +kernel
theorem litToks_has : litToks.all (fun t => Table.has (.single 10) t.sym) = true := by decide +kernel
theorem litToks_fit : toksFit 256 litToks 0 = true := by decide +kernel
theorem litToks_complete : complete ((toksLens litToks).take 256) = true := by decide +kernel
theorem litToks_byte : (toksLens litToks).all (fun l => decide (l < 256)) = true := by decide +kernel

/-- a block of literals is a well-formed block of every format with at least 256 code symbols -/
theorem litBlock_wf (f : Fmt) (hnc : 256 ≤ f.numCodes) (c : Bytes) (hc : c.length < 65536) :
    blockWf f (litBlock c) = true := by
  have h1 : tempWf f (.single 10) 0 = true := by simp [tempWf, Table.wf]
  have h2 : codeWf f (.single 10) litCode = true := by
    simp only [codeWf, litCode, litToks_valid, litToks_has, litToks_fit, litToks_complete, litToks_byte,
      Bool.and_true, decide_eq_true_eq]
    omega
  have h3 : Table.wf f.maxOffsetCodes f.offsetBits (.single 0) = true := by
    simp [Table.wf, Nat.two_pow_pos]
  have h4 : (c.map Cmd.lit).all (cmdWf f litCode.table (.single 0)) = true := by
    rw [List.all_eq_true]
    intro x hx
    obtain ⟨b, _, rfl⟩ := List.mem_map.1 hx
    rw [litCode_table]
    exact litTable_has b
  simp only [blockWf, litBlock, List.length_map, h1, h2, h3, h4, hc, decide_true, Bool.and_self]

/-- **the description is well-formed** -/
theorem litBlocks_wf (f : Fmt) (hnc : 256 ≤ f.numCodes) (d : Bytes) : wf f (litBlocks d) = true := by
  rw [wf, List.all_eq_true]
  intro b hb
  obtain ⟨c, hc, rfl⟩ := List.mem_map.1 hb
  exact litBlock_wf f hnc c (chunks_le d c hc)

/-! ## its expansion -/

theorem expandWinFrom_lits (fill : UInt8) (d out : Bytes) :
    expandWinFrom fill (d.map WCmd.lit) out = out ++ d := by
  induction d generalizing out with
  | nil => simp [expandWinFrom]
  | cons b d ih => simp [expandWinFrom, ih]

theorem expandWin_lits (fill : UInt8) (d : Bytes) : expandWin fill (d.map WCmd.lit) = d := by
  simp [expandWin, expandWinFrom_lits]

theorem denote_litBlocks (cs : List Bytes) : denote (cs.map litBlock) = cs.flatten.map WCmd.lit := by
  induction cs with
  | nil => rfl
  | cons c cs ih =>
    rw [List.map_cons, LhNewRT.denote_cons, ih]
    simp [litBlock, Cmd.denote, Function.comp_def]

/-- **the expansion of the description is the data** -/
theorem expand_litBlocks (d : Bytes) : expand (litBlocks d) = d := by
  rw [expand, litBlocks, denote_litBlocks, chunks_flatten, expandWin_lits]

/-! ## its size -/

theorem length_flatMap_bits (l : List UInt8) : (l.flatMap Bits.bitsOfByte).length = 8 * l.length := by
  induction l with
  | nil => rfl
  | cons b l ih => rw [List.flatMap_cons, List.length_append, ih, Bits.length_bitsOfByte, List.length_cons]; omega

theorem length_packBits (bs : List Bool) : (packBits bs).length * 8 < bs.length + 8 := by
  obtain ⟨k, hk, e⟩ := packBits_stream bs
  have := congrArg List.length e
  rw [length_flatMap_bits, List.length_append, List.length_replicate] at this
  omega

theorem litToks_bits (n l c : Nat) :
    (List.replicate n (Tok.len l)).flatMap (fun t => Table.word (.single c) t.sym ++ t.extra) = [] := by
  induction n with
  | zero => rfl
  | succ n ih => rw [List.replicate_succ, List.flatMap_cons, ih]; rfl

theorem length_litBlockBits (f : Fmt) (c : Bytes) :
    (blockBits f (litBlock c)).length = 35 + 2 * f.offsetBits + 8 * c.length := by
  have hc : ((c.map Cmd.lit).flatMap (cmdBits f litCode.table (.single 0))).length = 8 * c.length := by
    rw [litCode_table]
    induction c with
    | nil => rfl
    | cons b c ih =>
      simp only [List.map_cons, List.flatMap_cons, List.length_append, ih, cmdBits, litTable_word,
        List.length_cons]
      omega
  have e : blockBits f (litBlock c) = bitsN 16 (c.map Cmd.lit).length ++ tempBits (.single 10) 0 ++
      codeBits (.single 10) litCode ++ offBits f (.single 0) ++
      (c.map Cmd.lit).flatMap (cmdBits f litCode.table (.single 0)) := rfl
  have h1 : (tempBits (.single 10) 0).length = 10 := by simp [tempBits, length_bitsN]
  have h2 : (codeBits (.single 10) litCode).length = 9 := by
    show (bitsN 9 256 ++ litToks.flatMap _).length = 9
    rw [litToks, litToks_bits, List.append_nil, length_bitsN]
  have h3 : (offBits f (.single 0)).length = 2 * f.offsetBits := by
    simp only [offBits, List.length_append, length_bitsN]; omega
  rw [e]
  simp only [List.length_append, length_bitsN, hc, h1, h2, h3]

theorem length_litStreamBits (f : Fmt) (cs : List Bytes) :
    (streamBits f (cs.map litBlock)).length =
      (35 + 2 * f.offsetBits) * cs.length + 8 * (cs.map List.length).sum := by
  induction cs with
  | nil => rfl
  | cons c cs ih =>
    simp only [streamBits, List.map_cons, List.flatMap_cons, List.length_append, length_litBlockBits,
      List.length_cons, List.sum_cons] at ih ⊢
    rw [ih, Nat.mul_succ]
    omega

/-- size of the serialised description: less than 200 kB above the data for `offsetBits ≤ 9` and
data shorter than 4 GiB -/
theorem length_serialise_litBlocks (f : Fmt) (hob : f.offsetBits ≤ 9) (d : Bytes)
    (h : d.length < 4294000000) : (serialise f (litBlocks d)).length < 4294901760 := by
  have h1 := length_packBits (streamBits f (litBlocks d))
  rw [litBlocks, length_litStreamBits, sum_chunks] at h1
  have h2 := chunks_count d
  rw [serialise, litBlocks]
  generalize (chunks d).length = n at h1 h2
  have h3 : (35 + 2 * f.offsetBits) * n ≤ 53 * n := Nat.mul_le_mul_right _ (by omega)
  generalize (35 + 2 * f.offsetBits) * n = x at h1 h3
  omega

end LhasaV.ArchivePack
