import LhasaV.Props.C17
import LhasaV.Props.C11
import LhasaV.Props.C09
import LhasaV.Props.C14
