import LhasaV.Props.C17
import LhasaV.Props.C11
