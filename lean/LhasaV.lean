import LhasaV.Props.C17
