#include "genlib.h"
#include <string.h>
#include "lib/ext_header.c"
#include "lib/lha_file_header.c"
#include "lib/lha_input_stream.c"

int main(void)
{
	unsigned int i;
	printf("/-- `ext_header_types[]` of lib/ext_header.c: (num, min_len) in table order. -/\n");
	printf("def extHeaderTypes : List (Nat × Nat) := [");
	for (i = 0; i < NUM_HEADER_TYPES; ++i) {
		printf("%s(%u, %u)", i ? ", " : "", ext_header_types[i]->num,
		       (unsigned) ext_header_types[i]->min_len);
	}
	printf("]\n");
	GEN_NAT("commonHeaderLen", COMMON_HEADER_LEN);
	GEN_NAT("level0MinHeaderLen", LEVEL_0_MIN_HEADER_LEN);
	GEN_NAT("level1MinHeaderLen", LEVEL_1_MIN_HEADER_LEN);
	GEN_NAT("level2HeaderLen", LEVEL_2_HEADER_LEN);
	GEN_NAT("level3HeaderLen", LEVEL_3_HEADER_LEN);
	GEN_NAT("level3MaxHeaderLen", LEVEL_3_MAX_HEADER_LEN);
	GEN_NAT("level0UnixExtendedLen", LEVEL_0_UNIX_EXTENDED_LEN);
	GEN_NAT("level0Os9ExtendedLen", LEVEL_0_OS9_EXTENDED_LEN);
	GEN_NAT("maxSfxHeaderLen", MAX_SFX_HEADER_LEN);
	GEN_NAT("leadinBufferLen", LEADIN_BUFFER_LEN);
	GEN_NAT("leadinCapacity", sizeof(((LHAInputStream *) 0)->leadin));
	GEN_NAT("methodCapacity", sizeof(((LHAFileHeader *) 0)->compress_method));
	GEN_NAT("flagUnixPerms", LHA_FILE_UNIX_PERMS);
	GEN_NAT("flagUnixUidGid", LHA_FILE_UNIX_UID_GID);
	GEN_NAT("flagCommonCrc", LHA_FILE_COMMON_CRC);
	GEN_NAT("flagWindowsTimestamps", LHA_FILE_WINDOWS_TIMESTAMPS);
	GEN_NAT("flagOs9Perms", LHA_FILE_OS9_PERMS);
	GEN_NAT("extCommon", LHA_EXT_HEADER_COMMON);
	GEN_NAT("extFilename", LHA_EXT_HEADER_FILENAME);
	GEN_NAT("extPath", LHA_EXT_HEADER_PATH);
	GEN_NAT("extWindowsTimestamps", LHA_EXT_HEADER_WINDOWS_TIMESTAMPS);
	GEN_NAT("extUnixPermission", LHA_EXT_HEADER_UNIX_PERMISSION);
	GEN_NAT("extUnixUidGid", LHA_EXT_HEADER_UNIX_UID_GID);
	GEN_NAT("extUnixGroup", LHA_EXT_HEADER_UNIX_GROUP);
	GEN_NAT("extUnixUser", LHA_EXT_HEADER_UNIX_USER);
	GEN_NAT("extUnixTimestamp", LHA_EXT_HEADER_UNIX_TIMESTAMP);
	GEN_NAT("extOs9", LHA_EXT_HEADER_OS9);
	GEN_NAT("sfxIdDeclhaLen", strlen(DECLHA_SFX_ID));
	GEN_NAT("sfxIdAmigaLen", strlen(AMIGA_LHASFX_ID));
	{
		const char *a = DECLHA_SFX_ID, *b = AMIGA_LHASFX_ID;
		printf("def sfxIdDeclha : List Nat := [");
		for (i = 0; a[i]; ++i) printf("%s%u", i ? ", " : "", (unsigned char) a[i]);
		printf("]\ndef sfxIdAmiga : List Nat := [");
		for (i = 0; b[i]; ++i) printf("%s%u", i ? ", " : "", (unsigned char) b[i]);
		printf("]\n");
	}
		{
		// os9_to_unix_permissions evaluated for every 16-bit OS-9 permission word: the table over the low byte, and whether the
		// high byte is ignored (so that the 256-entry table is the whole function)
		unsigned int p, ignored = 1, flag = 1;
		static unsigned int tab[65536];
		for (p = 0; p < 65536; ++p) {
			LHAFileHeader h;
			memset(&h, 0, sizeof(h));
			h.os9_perms = (uint16_t) p;
			os9_to_unix_permissions(&h);
			tab[p] = h.unix_perms;
			flag = flag && (h.extra_flags == LHA_FILE_UNIX_PERMS);
		}
		for (p = 0; p < 65536; ++p) ignored = ignored && tab[p] == tab[p & 0xff];
		printf("/-- `os9_to_unix_permissions` of lib/lha_file_header.c for the permission words 0..255 -/\n");
		printf("def os9ToUnixTable : List Nat := [");
		for (p = 0; p < 256; ++p) printf("%s%s%u", p ? "," : "", p % 16 == 0 ? "\n  " : " ", tab[p]);
		printf("]\n");
		GEN_NAT("os9HighByteIgnored", ignored);
		GEN_NAT("os9SetsUnixPermsFlagOnly", flag);
	}
	return 0;
}
