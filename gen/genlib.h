// Helpers shared by the extractors.
#include <stdio.h>
#include <stdint.h>
#include <stddef.h>

#define GEN_NAT(name, val) \
	printf("def %s : Nat := %llu\n", name, (unsigned long long) (val))

#define GEN_CAP(name, arr) \
	printf("def %s : Nat := %llu\n", name, \
	       (unsigned long long) (sizeof(arr) / sizeof(*(arr))))

#define GEN_LIST_BEGIN(name) printf("def %s : List Nat := [", name)
#define GEN_LIST_END() printf("]\n")

static void gen_list_u(const char *name, const unsigned long long *v, size_t n)
{
	size_t i;
	printf("def %s : List Nat := [", name);
	for (i = 0; i < n; ++i) {
		printf("%s%s%llu", i ? "," : "", i % 16 == 0 ? "\n  " : " ", v[i]);
	}
	printf("]\n");
}

#define GEN_ARRAY(name, arr) do { \
	size_t n_ = sizeof(arr) / sizeof(*(arr)), i_; \
	printf("def %s : List Nat := [", name); \
	for (i_ = 0; i_ < n_; ++i_) { \
		printf("%s%s%llu", i_ ? "," : "", i_ % 16 == 0 ? "\n  " : " ", \
		       (unsigned long long) (arr)[i_]); \
	} \
	printf("]\n"); \
} while (0)
