#include "genlib.h"
#include "lib/lha_decoder.c"

int main(void)
{
	unsigned int i;
	printf("/-- `decoders[]` of lib/lha_decoder.c: method name -> (decoder type index by first occurrence of the dtype pointer, extra_size, max_read, block_size) -/\n");
	printf("def decoderTable : List (String × Nat × Nat × Nat × Nat) := [");
	for (i = 0; i < sizeof(decoders) / sizeof(*decoders); ++i) {
		unsigned int j, idx = 0;
		for (j = 0; j < i; ++j) if (decoders[j].dtype == decoders[i].dtype) break;
		idx = j;
		printf("%s\n  (\"%s\", %u, %llu, %llu, %llu)", i ? "," : "", decoders[i].name, idx,
		       (unsigned long long) decoders[i].dtype->extra_size,
		       (unsigned long long) decoders[i].dtype->max_read,
		       (unsigned long long) decoders[i].dtype->block_size);
	}
	printf("]\n");
	GEN_NAT("decoderStructSize", sizeof(LHADecoder));
	return 0;
}
