#include "genlib.h"
#include LHNEW_FILE

#define P(name, val) printf("def %s%s : Nat := %llu\n", LHNEW_PREFIX, name, (unsigned long long) (val))

int main(void)
{
	LHANewDecoder *d = 0;
	P("HistoryBits", HISTORY_BITS);
	P("OffsetBits", OFFSET_BITS);
	P("NumCodes", NUM_CODES);
	P("CopyThreshold", COPY_THRESHOLD);
	P("RingSize", RING_BUFFER_SIZE);
	P("TempCodeBits", TEMP_CODE_BITS);
	P("MaxTempCodes", MAX_TEMP_CODES);
	P("MaxOffsetCodes", MAX_OFFSET_CODES);
	P("RingCap", sizeof(d->ringbuf));
	P("TempTreeCap", sizeof(d->temp_tree) / sizeof(TreeElement));
	P("CodeTreeCap", sizeof(d->code_tree) / sizeof(TreeElement));
	P("OffsetTreeCap", sizeof(d->offset_tree) / sizeof(TreeElement));
	P("LeafBit", TREE_NODE_LEAF);
	P("ExtraSize", DECODER_NAME.extra_size);
	P("MaxRead", DECODER_NAME.max_read);
	P("BlockSize", DECODER_NAME.block_size);
#ifdef LHARK
	P("Lhark", 1);
#else
	P("Lhark", 0);
#endif
#ifdef DECODER2_NAME
	P("2ExtraSize", DECODER2_NAME.extra_size);
	P("2MaxRead", DECODER2_NAME.max_read);
	P("2BlockSize", DECODER2_NAME.block_size);
#endif
	return 0;
}
