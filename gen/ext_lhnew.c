#include "genlib.h"
#include <stdlib.h>
#include LHNEW_FILE

static size_t no_input(void *buf, size_t buf_len, void *user_data) { (void) buf; (void) buf_len; (void) user_data; return 0; }
static int all_bytes(const uint8_t *p, size_t n, uint8_t v) { size_t i; for (i = 0; i < n; ++i) if (p[i] != v) return 0; return 1; }
static int all_leaf(const TreeElement *t, size_t n) { size_t i; for (i = 0; i < n; ++i) if (t[i] != TREE_NODE_LEAF) return 0; return 1; }

#define P(name, val) printf("def %s%s : Nat := %llu\n", LHNEW_PREFIX, name, (unsigned long long) (val))

int main(void)
{
	LHANewDecoder *d = 0;
	P("HistoryBits", HISTORY_BITS);
	P("OffsetBits", OFFSET_BITS);
	P("NumCodes", NUM_CODES);
	P("CopyThreshold", COPY_THRESHOLD);
	P("RingSize", RING_BUFFER_SIZE);
	P("TempCodeBits", TEMP_CODE_BITS);
	P("MaxTempCodes", MAX_TEMP_CODES);
	P("MaxOffsetCodes", MAX_OFFSET_CODES);
	P("RingCap", sizeof(d->ringbuf));
	P("TempTreeCap", sizeof(d->temp_tree) / sizeof(TreeElement));
	P("CodeTreeCap", sizeof(d->code_tree) / sizeof(TreeElement));
	P("OffsetTreeCap", sizeof(d->offset_tree) / sizeof(TreeElement));
	P("LeafBit", TREE_NODE_LEAF);
	P("ExtraSize", DECODER_NAME.extra_size);
	P("MaxRead", DECODER_NAME.max_read);
	P("BlockSize", DECODER_NAME.block_size);
#ifdef LHARK
	P("Lhark", 1);
#else
	P("Lhark", 0);
#endif
	{
		// the state right after the decoder's own init function ran on zeroed memory
		LHANewDecoder *st = calloc(1, sizeof(LHANewDecoder));
		P("InitOk", lha_lh_new_init(st, no_input, NULL) != 0);
		P("InitRingAllSpaces", all_bytes(st->ringbuf, sizeof(st->ringbuf), ' '));
		P("InitRingPos", st->ringbuf_pos);
		P("InitBlockRemaining", st->block_remaining);
		P("InitTreesAllLeaf", all_leaf(st->code_tree, sizeof(st->code_tree) / sizeof(TreeElement))
		                      && all_leaf(st->offset_tree, sizeof(st->offset_tree) / sizeof(TreeElement))
		                      && all_leaf(st->temp_tree, sizeof(st->temp_tree) / sizeof(TreeElement)));
	}
#ifdef DECODER2_NAME
	P("2ExtraSize", DECODER2_NAME.extra_size);
	P("2MaxRead", DECODER2_NAME.max_read);
	P("2BlockSize", DECODER2_NAME.block_size);
#endif
	return 0;
}
