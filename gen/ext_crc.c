#include "genlib.h"
#include "lib/crc16.c"

int main(void)
{
	unsigned int i, n = sizeof(crc16_table) / sizeof(*crc16_table);
	printf("/-- `crc16_table` of lib/crc16.c (%u entries). -/\n", n);
	printf("def crc16Table : List Nat := [");
	for (i = 0; i < n; ++i) {
		printf("%s%s0x%x", i ? "," : "", i % 8 == 0 ? "\n  " : " ",
		       crc16_table[i]);
	}
	printf("]\n");
	return 0;
}
