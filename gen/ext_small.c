// lzs / lz5 / null / lh1 / pm1 / pm2 constants, one program per file via SMALL_WHICH
#include "genlib.h"
#include <stdlib.h>
#include <string.h>
#include SMALL_FILE

// the decoder's state right after its own init function ran (on zeroed memory, as lha_decoder_new provides it)
static size_t no_input(void *buf, size_t buf_len, void *user_data) { (void) buf; (void) buf_len; (void) user_data; return 0; }
static int all_equal(const uint8_t *p, size_t n, uint8_t v) { size_t i; for (i = 0; i < n; ++i) if (p[i] != v) return 0; return 1; }

int main(void)
{
#if SMALL_WHICH == 1  /* lzs */
	LHALZSDecoder *d = 0;
	GEN_NAT("lzsRingSize", RING_BUFFER_SIZE);
	GEN_NAT("lzsRingCap", sizeof(d->ringbuf));
	GEN_NAT("lzsStartOffset", START_OFFSET);
	GEN_NAT("lzsThreshold", THRESHOLD);
	GEN_NAT("lzsMaxRead", lha_lzs_decoder.max_read);
	GEN_NAT("lzsBlockSize", lha_lzs_decoder.block_size);
	{
		LHALZSDecoder *st = calloc(1, sizeof(LHALZSDecoder));
		GEN_NAT("lzsInitOk", lha_lzs_init(st, no_input, NULL) != 0);
		GEN_NAT("lzsInitRingAllSpaces", all_equal(st->ringbuf, sizeof(st->ringbuf), ' '));
		GEN_NAT("lzsInitRingPos", st->ringbuf_pos);
	}
#elif SMALL_WHICH == 2  /* lz5 */
	LHALZ5Decoder *d = 0;
	GEN_NAT("lz5RingSize", RING_BUFFER_SIZE);
	GEN_NAT("lz5RingCap", sizeof(d->ringbuf));
	GEN_NAT("lz5StartOffset", START_OFFSET);
	GEN_NAT("lz5Threshold", THRESHOLD);
	GEN_NAT("lz5MaxRead", lha_lz5_decoder.max_read);
	GEN_NAT("lz5BlockSize", lha_lz5_decoder.block_size);
	{
		LHALZ5Decoder *st = calloc(1, sizeof(LHALZ5Decoder));
		GEN_NAT("lz5InitOk", lha_lz5_init(st, no_input, NULL) != 0);
		printf("/-- the ring of lz5_decoder.c right after `lha_lz5_init` (the LArc fill pattern as the code builds it) -/\n");
		GEN_ARRAY("lz5InitRing", st->ringbuf);
		GEN_NAT("lz5InitRingPos", st->ringbuf_pos);
	}
#elif SMALL_WHICH == 3  /* null */
	GEN_NAT("nullBlockReadSize", BLOCK_READ_SIZE);
	GEN_NAT("nullMaxRead", lha_null_decoder.max_read);
	GEN_NAT("nullBlockSize", lha_null_decoder.block_size);
#elif SMALL_WHICH == 4  /* lh1 */
	LHALH1Decoder *d = 0;
	GEN_NAT("lh1RingSize", RING_BUFFER_SIZE);
	GEN_NAT("lh1RingCap", sizeof(d->ringbuf));
	GEN_NAT("lh1TreeReorderLimit", TREE_REORDER_LIMIT);
	GEN_NAT("lh1NumCodes", NUM_CODES);
	GEN_NAT("lh1NumTreeNodes", NUM_TREE_NODES);
	GEN_NAT("lh1NumOffsets", NUM_OFFSETS);
	GEN_NAT("lh1MinOffsetLength", MIN_OFFSET_LENGTH);
	GEN_NAT("lh1CopyThreshold", COPY_THRESHOLD);
	GEN_NAT("lh1NodesCap", sizeof(d->nodes) / sizeof(*d->nodes));
	GEN_NAT("lh1LeafNodesCap", sizeof(d->leaf_nodes) / sizeof(*d->leaf_nodes));
	GEN_NAT("lh1GroupsCap", sizeof(d->groups) / sizeof(*d->groups));
	GEN_NAT("lh1GroupLeaderCap", sizeof(d->group_leader) / sizeof(*d->group_leader));
	GEN_NAT("lh1OffsetLookupCap", sizeof(d->offset_lookup));
	GEN_NAT("lh1OffsetLengthsCap", sizeof(d->offset_lengths));
	GEN_ARRAY("lh1OffsetFdist", offset_fdist);
	GEN_NAT("lh1MaxRead", lha_lh1_decoder.max_read);
	GEN_NAT("lh1BlockSize", lha_lh1_decoder.block_size);
	{
		LHALH1Decoder *st = calloc(1, sizeof(LHALH1Decoder));
		unsigned int i;
		GEN_NAT("lh1InitOk", lha_lh1_init(st, no_input, NULL) != 0);
		printf("/-- the adaptive tree of lh1_decoder.c right after `lha_lh1_init`: (leaf, child_index, parent, freq, group) per node -/\n");
		printf("def lh1InitNodes : List (Nat × Nat × Nat × Nat × Nat) := [");
		for (i = 0; i < NUM_TREE_NODES; ++i)
			printf("%s%s(%u, %u, %u, %u, %u)", i ? "," : "", i % 6 == 0 ? "\n  " : " ", (unsigned) st->nodes[i].leaf,
			       (unsigned) st->nodes[i].child_index, (unsigned) st->nodes[i].parent, (unsigned) st->nodes[i].freq, (unsigned) st->nodes[i].group);
		printf("]\n");
		GEN_ARRAY("lh1InitLeafNodes", st->leaf_nodes);
		GEN_ARRAY("lh1InitGroups", st->groups);
		GEN_NAT("lh1InitNumGroups", st->num_groups);
		GEN_ARRAY("lh1InitGroupLeader", st->group_leader);
		GEN_ARRAY("lh1InitOffsetLookup", st->offset_lookup);
		GEN_ARRAY("lh1InitOffsetLengths", st->offset_lengths);
		GEN_NAT("lh1InitRingAllSpaces", all_equal(st->ringbuf, sizeof(st->ringbuf), ' '));
		GEN_NAT("lh1InitRingPos", st->ringbuf_pos);
	}
#elif SMALL_WHICH == 5  /* pm1 */
	LHAPM1Decoder *d = 0;
	unsigned int i, j;
	GEN_NAT("pm1RingSize", RING_BUFFER_SIZE);
	GEN_NAT("pm1RingCap", sizeof(d->ringbuf));
	GEN_NAT("pm1MaxByteBlockLen", MAX_BYTE_BLOCK_LEN);
	GEN_NAT("pm1MaxCopyBlockLen", MAX_COPY_BLOCK_LEN);
	GEN_NAT("pm1MaxRead", lha_pm1_decoder.max_read);
	GEN_NAT("pm1BlockSize", lha_pm1_decoder.block_size);
	{
		LHAPM1Decoder *st = malloc(sizeof(LHAPM1Decoder));
		memset(st, 0xa5, sizeof(LHAPM1Decoder));      // pm1 clears its state itself
		GEN_NAT("pm1InitOk", lha_pm1_init(st, no_input, NULL) != 0);
		GEN_NAT("pm1InitRingAllZero", all_equal(st->ringbuf, sizeof(st->ringbuf), 0));
		GEN_NAT("pm1InitRingPos", st->ringbuf_pos);
		GEN_NAT("pm1InitOutputPos", st->output_stream_pos);
	}
	printf("def pm1CopyRanges : List (Nat × Nat) := [");
	for (i = 0; i < sizeof(copy_ranges) / sizeof(*copy_ranges); ++i)
		printf("%s(%u, %u)", i ? ", " : "", copy_ranges[i].offset, copy_ranges[i].bits);
	printf("]\ndef pm1ByteRanges : List (Nat × Nat) := [");
	for (i = 0; i < sizeof(byte_ranges) / sizeof(*byte_ranges); ++i)
		printf("%s(%u, %u)", i ? ", " : "", byte_ranges[i].offset, byte_ranges[i].bits);
	printf("]\n/-- `byte_decode_trees` flattened row by row (row width `pm1TreeRowLen`) -/\n");
	GEN_NAT("pm1TreeRowLen", sizeof(byte_decode_trees[0]));
	GEN_NAT("pm1TreeRows", sizeof(byte_decode_trees) / sizeof(byte_decode_trees[0]));
	printf("def pm1ByteDecodeTrees : List Nat := [");
	for (i = 0; i < sizeof(byte_decode_trees) / sizeof(byte_decode_trees[0]); ++i)
		for (j = 0; j < sizeof(byte_decode_trees[0]); ++j)
			printf("%s%s%u", (i || j) ? "," : "", j == 0 ? "\n  " : " ", byte_decode_trees[i][j]);
	printf("]\n");
#elif SMALL_WHICH == 6  /* pm2 */
	LHAPM2Decoder *d = 0;
	unsigned int i;
	GEN_NAT("pm2RingSize", RING_BUFFER_SIZE);
	GEN_NAT("pm2RingCap", sizeof(d->ringbuf));
	GEN_NAT("pm2OutputBufferSize", OUTPUT_BUFFER_SIZE);
	GEN_NAT("pm2CodeTreeElements", CODE_TREE_ELEMENTS);
	GEN_NAT("pm2OffsetTreeElements", OFFSET_TREE_ELEMENTS);
	GEN_NAT("pm2CodeTreeCap", sizeof(d->code_tree) / sizeof(TreeElement));
	GEN_NAT("pm2OffsetTreeCap", sizeof(d->offset_tree) / sizeof(TreeElement));
	GEN_NAT("pm2LeafBit", TREE_NODE_LEAF);
	GEN_NAT("pm2HistoryCap", sizeof(d->history_list.history) / sizeof(HistoryNode));
	GEN_NAT("pm2MaxRead", lha_pm2_decoder.max_read);
	GEN_NAT("pm2BlockSize", lha_pm2_decoder.block_size);
	{
		LHAPM2Decoder *st = calloc(1, sizeof(LHAPM2Decoder));
		unsigned int k, ok = 1;
		GEN_NAT("pm2InitOk", lha_pm2_decoder_init(st, no_input, NULL) != 0);
		GEN_NAT("pm2InitRingAllSpaces", all_equal(st->ringbuf, sizeof(st->ringbuf), ' '));
		GEN_NAT("pm2InitRingPos", st->ringbuf_pos);
		for (k = 0; k < sizeof(st->code_tree) / sizeof(TreeElement); ++k) ok = ok && st->code_tree[k] == TREE_NODE_LEAF;
		for (k = 0; k < sizeof(st->offset_tree) / sizeof(TreeElement); ++k) ok = ok && st->offset_tree[k] == TREE_NODE_LEAF;
		GEN_NAT("pm2InitTreesAllLeaf", ok);
		GEN_NAT("pm2InitRebuildRemaining", st->tree_rebuild_remaining);
	}
	printf("def pm2HistoryDecode : List (Nat × Nat) := [");
	for (i = 0; i < sizeof(history_decode) / sizeof(*history_decode); ++i)
		printf("%s(%u, %u)", i ? ", " : "", history_decode[i].offset, history_decode[i].bits);
	printf("]\ndef pm2CopyDecode : List (Nat × Nat) := [");
	for (i = 0; i < sizeof(copy_decode) / sizeof(*copy_decode); ++i)
		printf("%s(%u, %u)", i ? ", " : "", copy_decode[i].offset, copy_decode[i].bits);
	printf("]\n");
	{
		// pma_common.c: the initial history list, as the sequence reached by following `prev` from the head
		HistoryLinkedList l;
		unsigned int c;
		init_history_list(&l);
		printf("/-- init_history_list: (prev, next) per byte value, and the head -/\n");
		printf("def pmaInitHistory : List (Nat × Nat) := [");
		for (c = 0; c < 256; ++c)
			printf("%s%s(%u, %u)", c ? "," : "", c % 8 == 0 ? "\n  " : " ", l.history[c].prev, l.history[c].next);
		printf("]\n");
		GEN_NAT("pmaInitHead", l.history_head);
	}
#endif
	return 0;
}
