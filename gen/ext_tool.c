// Constants and finite tables of the command-line tool (src/) and of lib/macbinary.c, evaluated from the working tree:
//   * MacBinary header layout (lib/macbinary.c macros)
//   * os_type_to_string of src/list.c for all 256 identifier bytes
//   * what safe_output of src/safe.c writes for each single byte 1..255 (the sanitising class)
//   * MAX_PROGRESS_LEN of src/extract.c
#define _GNU_SOURCE
#include "genlib.h"
#include <string.h>
#include <stdlib.h>
#include "lib/macbinary.c"
#include "src/safe.c"
#include "src/filter.c"
#include "src/list.c"
#undef _
#include "src/extract.c"

int main(void)
{
	unsigned int b, i;
	GEN_NAT("macOutputBufferSize", OUTPUT_BUFFER_SIZE);
	GEN_NAT("macTimeOffset", MAC_TIME_OFFSET);
	GEN_NAT("mbhdrSize", MBHDR_SIZE);
	GEN_NAT("mbhdrOffVersion", MBHDR_OFF_VERSION);
	GEN_NAT("mbhdrOffFilenameLen", MBHDR_OFF_FILENAME_LEN);
	GEN_NAT("mbhdrOffFilename", MBHDR_OFF_FILENAME);
	GEN_NAT("mbhdrLenFilename", MBHDR_LEN_FILENAME);
	GEN_NAT("mbhdrOffZeroCompat1", MBHDR_OFF_ZERO_COMPAT1);
	GEN_NAT("mbhdrOffZeroCompat2", MBHDR_OFF_ZERO_COMPAT2);
	GEN_NAT("mbhdrOffDataForkLen", MBHDR_OFF_DATA_FORK_LEN);
	GEN_NAT("mbhdrOffResForkLen", MBHDR_OFF_RES_FORK_LEN);
	GEN_NAT("mbhdrOffFileModDate", MBHDR_OFF_FILE_MOD_DATE);
	GEN_NAT("mbhdrOffCommentLen", MBHDR_OFF_COMMENT_LEN);
	GEN_NAT("mbhdrOffMacbinary2Data", MBHDR_OFF_MACBINARY2_DATA);
	GEN_NAT("mbhdrLenMacbinary2Data", MBHDR_LEN_MACBINARY2_DATA);
	GEN_NAT("maxProgressLen", MAX_PROGRESS_LEN);

	printf("/-- `os_type_to_string(b)` of src/list.c for b = 0..255, as byte lists -/\n");
	printf("def osTypeStrings : List (List Nat) := [");
	for (b = 0; b < 256; ++b) {
		const char *s = os_type_to_string((uint8_t) b);
		printf("%s%s[", b ? "," : "", b % 4 == 0 ? "\n  " : " ");
		for (i = 0; s[i] != '\0'; ++i) printf("%s%u", i ? "," : "", (unsigned char) s[i]);
		printf("]");
	}
	printf("]\n");

	printf("/-- what `safe_output` of src/safe.c writes for the one-byte string b, b = 1..255 (entry 0 is unused: a C string cannot hold it) -/\n");
	printf("def safeOutputTable : List (List Nat) := [");
	for (b = 0; b < 256; ++b) {
		char *buf = NULL; size_t len = 0;
		unsigned char str[2];
		FILE *f = open_memstream(&buf, &len);
		str[0] = (unsigned char) b; str[1] = 0;
		if (b != 0) safe_output(f, str);
		fclose(f);
		printf("%s%s[", b ? "," : "", b % 8 == 0 ? "\n  " : " ");
		for (i = 0; i < len; ++i) printf("%s%u", i ? "," : "", (unsigned char) buf[i]);
		printf("]");
		free(buf);
	}
	printf("]\n");
	return 0;
}
