#!/usr/bin/env python3
"""Differential test of the Lean model of the list commands (lean/LhasaV/Model/ListOut.lean,
Glob.lean) against the real `lha` tool built from /repo.

  list cases : an archive is generated, written to a file whose mtime is set, listed by
               `lha <l|lv|v|vv>[q<k>] <file> [filters]` under TEST_NOW_TIME, and the stdout bytes are
               compared with what lhv's `list` op renders.
  glob cases : `glob <pattern> <string>` (matchGlob and GlobSpec digits must agree) and, through
               `lha lq <archive> <pattern>` on an archive of one-name members, the C's match_glob.

Prints `difftest_list: <n> cases, <k> mismatches`; exit status 1 on any mismatch.
Environment: VERIF_SEED (default 1), DIFFTEST_SCALE (float, default 1.0).
"""
import os, sys, time, calendar, itertools
from concurrent.futures import ThreadPoolExecutor

sys.path.insert(0, os.path.dirname(os.path.dirname(os.path.abspath(__file__))))
from vlib import core, hdrgen
from vlib import lhaenc as E

M32 = 2 ** 32
HALF_YEAR = 6 * 30 * 24 * 60 * 60           # 15552000
MODES = ["l", "lv", "v", "vv"]
SCALE = float(os.environ.get("DIFFTEST_SCALE", "1.0"))


# ---------------------------------------------------------------------------------------------
# value generators

def rand_size(r):
    k = r.random()
    if k < 0.15:
        return r.choice([0, 1, 2, 9, 10, 99, 100, 999, 1000, 9999999, 10000000, 2 ** 24 - 1, 2 ** 24, 2 ** 24 + 1,
                         2 ** 24 + 3, 2 ** 25 + 2, 2 ** 25 + 6, 2 ** 31 - 1, 2 ** 31, 2 ** 31 + 1, M32 - 1, M32 - 2,
                         M32 - 128, M32 - 129, M32 - 127])
    if k < 0.45:
        return r.randrange(M32)
    if k < 0.75:
        return r.randrange(2 ** r.randrange(1, 33))
    if k < 0.85:
        # binary32 conversion ties: a 24-bit significand followed by 1000…0
        s = r.randrange(1, 9)
        m = r.randrange(2 ** 23, 2 ** 24)
        return ((m << s) | (1 << (s - 1))) % M32
    if k < 0.92:
        # product ties: m * 100 with m ≡ 16 (mod 32) needs 31 bits and drops 1000000b
        return (r.randrange(10737419, 2 ** 24) // 32) * 32 + 16
    b = r.randrange(1, 33)
    return max(0, min(M32 - 1, 2 ** b + r.randrange(-2, 3)))


def ratio_pair(r):
    """(compressed, uncompressed) aimed at the rounding of the ratio column"""
    k = r.random()
    if k < 0.25:
        # exact decimal ties of %5.1f: value n + 0.25 / n + 0.75
        j = r.choice([1, 1, 2, 4, 5, 8, 25, 1000, r.randrange(1, 5000)])
        n = r.randrange(0, 3000)
        c = (4 * n + r.choice([1, 3])) * j
        u = 400 * j
        return c % M32, u % M32
    if k < 0.35:
        # n + 0.125·odd etc.: exactly representable values close to the rounding boundary
        sh = r.randrange(3, 12)
        u = 100 * 2 ** sh
        return r.randrange(0, 2 ** 20), u
    if k < 0.45:
        u = r.choice([0, 1, 3, 7, 100, 1000])
        return rand_size(r), u
    if k < 0.55:
        c = rand_size(r)
        return c, max(0, min(M32 - 1, c + r.randrange(-3, 4)))
    if k < 0.65:
        # results just around x.x5 (not exactly): u = 2000·j, c ≈ (2n+1)·j
        j = r.randrange(1, 100000)
        n = r.randrange(0, 1000)
        return ((2 * n + 1) * j + r.randrange(-1, 2)) % M32, (2000 * j) % M32
    return rand_size(r), rand_size(r)


CAL_POINTS = []
for (y, mo, d) in [(1970, 1, 1), (1970, 3, 1), (1972, 2, 29), (1972, 3, 1), (1980, 1, 1), (1999, 12, 31), (2000, 2, 29),
                   (2000, 3, 1), (2001, 1, 1), (2004, 2, 29), (2024, 2, 29), (2038, 1, 19), (2038, 1, 20), (2069, 12, 31),
                   (2096, 2, 29), (2100, 2, 28), (2100, 3, 1), (2101, 1, 1), (2104, 2, 29), (2106, 1, 1), (2106, 2, 7)] + \
        [(2023, m, 1) for m in range(1, 13)] + [(2100, m, 1) for m in range(1, 13)]:
    t = calendar.timegm((y, mo, d, 0, 0, 0))
    for dt in (-1, 0, 1, 43200, 86399):
        if 0 < t + dt < M32:
            CAL_POINTS.append(t + dt)


def rand_now(r):
    k = r.random()
    if k < 0.1:
        return r.choice([0, 1, HALF_YEAR - 1, HALF_YEAR, HALF_YEAR + 1, M32 - 1, 2 ** 31 - 1, 2 ** 31, 2 ** 31 + 1])
    if k < 0.2:
        return r.randrange(0, 2 * HALF_YEAR)
    if k < 0.6:
        return r.randrange(1_000_000_000, 2_000_000_000)
    return r.randrange(M32)


def rand_ts(r, now):
    k = r.random()
    if k < 0.18:
        return r.choice([0, 1, 2, 59, 60, 86399, 86400, 2 ** 31 - 1, 2 ** 31, 2 ** 31 + 1, M32 - 1, M32 - 2])
    if k < 0.45:
        return max(0, min(M32 - 1, now - HALF_YEAR + r.randrange(-2, 3)))
    if k < 0.6:
        return r.choice(CAL_POINTS)
    if k < 0.7:
        return max(0, min(M32 - 1, now + r.randrange(-3, 4)))
    return r.randrange(M32)


def unix_to_dos(t):
    """MS-DOS stamp of a Unix time, None if not representable (year range, odd seconds)"""
    tm = time.gmtime(t)
    if not (1980 <= tm.tm_year <= 2107) or tm.tm_sec % 2:
        return None
    return E.dos_time(tm.tm_year, tm.tm_mon, tm.tm_mday, tm.tm_hour, tm.tm_min, tm.tm_sec)


def rand_dos(r):
    if r.random() < 0.1:
        return 0
    return E.dos_time(r.randrange(1980, 2108), r.randrange(0, 16), r.randrange(0, 32), r.randrange(0, 32),
                      r.randrange(0, 64), r.randrange(0, 64))


NAME_ALPH_PLAIN = b"abcdefXYZ0189._- "
NAME_ALPH_WILD = bytes(range(1, 256))


def rand_namebytes(r, maxlen=14, minlen=1):
    n = r.randrange(minlen, maxlen + 1)
    k = r.random()
    if k < 0.55:
        return bytes(r.choice(NAME_ALPH_PLAIN) for _ in range(n))
    if k < 0.8:
        return bytes(r.choice([r.randrange(1, 0x20), 0x7e, 0x7f, 0x80, 0xfe, r.randrange(0x80, 0x100), 0x41, 0x61, 0x2a,
                               0x3f, 0x1b, 0x0a, 0x0d, 0x09]) for _ in range(n))
    return bytes(r.choice(NAME_ALPH_WILD) for _ in range(n))


def rand_method(r, first, is_dir):
    if is_dir:
        return b"-lhd-"
    k = r.random()
    if k < 0.7:
        return r.choice([m for m in hdrgen.METHODS if m != b"-lhd-"])
    if first:
        # must still be recognised by file_header_match
        return r.choice([b"-lh" + bytes([r.randrange(256)]) + b"-", b"-pm" + bytes([r.choice([0, 1, 0x32, 0x80, 0x0a])]) + b"-"])
    return bytes(r.randrange(256) for _ in range(5)) if r.random() < 0.5 else \
        r.choice([b"-lh\0-", b"\0lh5-", b"-l\n5-", b"-lh5\0", b"ab\0cd", b"-lhd\0", b"-LHD-", b"\xff\xfe\x80\x7f\x1b"])


# ---------------------------------------------------------------------------------------------
# hand-rolled members

def build_member(r, first, last, now, force=None):
    """returns bytes of one member (header + data); `force` overrides generated attributes"""
    a = dict(level=r.randrange(4), kind=r.choice(["file", "file", "file", "dir", "link"]),
             os=r.choice(hdrgen.OS_TYPES) if r.random() < 0.7 else r.randrange(256),
             uperm=None, os9=None, uidgid=None, ts=rand_ts(r, now), crc=r.randrange(65536),
             length=rand_size(r), datalen=r.choice([0, 0, 1, 2, 7, 100, r.randrange(0, 600)]), fake_clen=None,
             name=None, path=None, target=None, method=None, tsmode=None)
    k = r.random()
    if k < 0.45:
        a["uperm"] = r.choice([0o100644, 0o100755, 0o40755, 0o777, 0, 0o177777, 0o4755, r.randrange(65536)])
    elif k < 0.65:
        a["os9"] = r.randrange(65536)
    elif k < 0.72:
        a["uperm"] = r.randrange(65536)
        a["os9"] = r.randrange(65536)
    if r.random() < 0.5:
        a["uidgid"] = (r.choice([0, 1, 9, 10, 99, 100, 999, 1000, 9999, 10000, 65535, r.randrange(65536)]),
                       r.choice([0, 1, 9, 10, 99, 100, 999, 1000, 9999, 10000, 65535, r.randrange(65536)]))
    if r.random() < 0.35:
        c, u = ratio_pair(r)
        a["length"] = u
        if c <= 600:
            a["datalen"] = c
        elif last:
            a["fake_clen"] = c
    if last and a["fake_clen"] is None and r.random() < 0.5:
        a["fake_clen"] = rand_size(r)
    if force:
        a.update(force)
    level, kind = a["level"], a["kind"]
    if kind == "link":
        # a symlink needs Unix permissions of type S_IFLNK on an -lhd- member
        if a["uperm"] is None or (a["uperm"] & 0o170000) != 0o120000:
            a["uperm"] = 0o120000 | r.choice([0o777, 0, r.randrange(0o10000)])
        if force is None or "os9" not in force:
            a["os9"] = None if r.random() < 0.8 else a["os9"]
    is_dir = kind in ("dir", "link")
    method = a["method"] or rand_method(r, first, is_dir)
    name = a["name"] if a["name"] is not None else rand_namebytes(r, r.choice([3, 8, 14, 30]))
    path = a["path"]
    if path is None:
        path = [rand_namebytes(r, 6) for _ in range(r.choice([0, 0, 1, 2, 3]))]
    target = a["target"] if a["target"] is not None else rand_namebytes(r, 10)
    if level >= 2 and a["name"] is None and a["path"] is None and a["target"] is None and r.random() < 0.12:
        # exact lengths around powers of two for ONE of the printed pieces (name, path incl. separators, link target with its
        # " -> " / "|" decoration): a formatting buffer boundary shows only at one exact length
        L = r.choice([63, 64, 65, 127, 128, 129, 255, 256, 257, 511, 512, 513, 1023, 1024, 1025]) - r.choice([0, 0, 0, 1, 4])
        which = r.choice(["name", "path", "target"])
        if which == "name":
            name = rand_namebytes(r, L, L)
        elif which == "path":
            path = [rand_namebytes(r, max(1, L - 1), max(1, L - 1))]          # plus the trailing separator = L
        else:
            target = rand_namebytes(r, max(1, L), max(1, L))
    if kind == "dir" and not path:
        path = [rand_namebytes(r, 6)]
    data = bytes(r.randrange(256) for _ in range(a["datalen"])) if not is_dir or r.random() < 0.2 else b""
    clen = len(data)
    ts = a["ts"]
    f = E.Fields(level=level, method=method, clen=clen, length=a["length"], crc=a["crc"], os_type=a["os"],
                 attr=r.choice([0x20, 0x10, 0]))
    if level in (0, 1):
        sep = b"\\" if r.random() < 0.8 else b"/"
        comps = [c.replace(b"\\", b"_").replace(b"/", b"_") for c in path]
        nm = name.replace(b"\\", b"_").replace(b"/", b"_")
        if kind == "dir":
            full = sep.join(comps) + sep
        elif kind == "link":
            full = sep.join(comps + [nm.replace(b"|", b"!") + b"|" + target])
        else:
            full = sep.join(comps + [nm])
        full = full[:200]
        f.name = full
        dos = unix_to_dos(ts) if a["tsmode"] != "randdos" else None
        f.time = dos if dos is not None and r.random() < 0.7 else rand_dos(r)
    if level == 0:
        want_area = a["uperm"] is not None or a["os9"] is not None or a["uidgid"] is not None or a["tsmode"] == "exact" \
            or r.random() < 0.3
        if want_area and len(f.name) < 200:
            if a["os9"] is not None and a["uperm"] is None:
                ar = bytearray(r.randrange(256) for _ in range(22))
                ar[0] = 0x39; ar[9] = 0xcc
                ar[1] = a["os9"] & 0xff; ar[2] = a["os9"] >> 8
                ar[17] = ar[1]; ar[18] = ar[2]
                f.area = bytes(ar)
            else:
                u, g = a["uidgid"] or (r.randrange(65536), r.randrange(65536))
                p = a["uperm"] if a["uperm"] is not None else r.randrange(65536)
                f.area = bytes([r.choice([0x55, 0x55, 0x4b]) if force is None or "areatype" not in force else force["areatype"], 0]) + \
                    ts.to_bytes(4, "little") + bytes(r.randrange(256) for _ in range(r.choice([0, 0, 3]))) + \
                    p.to_bytes(2, "little") + u.to_bytes(2, "little") + g.to_bytes(2, "little")
    else:
        exts = []
        if level >= 2:
            f.time = ts
            if kind != "dir":
                nm = name
                if kind == "link":
                    nm = name.replace(b"|", b"!") + b"|" + target
                exts.append((E.EXT_FILENAME, nm))
            if path:
                exts.append((E.EXT_PATH, b"\xff".join(path) + (b"\xff" if r.random() < 0.85 else b"")))
        if a["uperm"] is not None:
            exts.append((E.EXT_PERM, a["uperm"].to_bytes(2, "little")))
        if a["os9"] is not None:
            o = bytearray(r.randrange(256) for _ in range(12))
            o[7] = a["os9"] & 0xff; o[8] = a["os9"] >> 8
            exts.append((E.EXT_OS9, bytes(o)))
        if a["uidgid"] is not None:
            exts.append((E.EXT_UIDGID, a["uidgid"][1].to_bytes(2, "little") + a["uidgid"][0].to_bytes(2, "little")))
        if level == 1 and (a["tsmode"] == "exact" or r.random() < 0.5):
            exts.append((E.EXT_UTIME, ts.to_bytes(4, "little")))
        elif level >= 2 and r.random() < 0.15:
            exts.append((E.EXT_UTIME, rand_ts(r, now).to_bytes(4, "little")))
        if r.random() < 0.2:
            exts.append((r.choice([E.EXT_USER, E.EXT_GROUP]), rand_namebytes(r, 6)))
        r.shuffle(exts)
        f.exts = exts
        f.common_crc = r.random() < 0.4
        if f.common_crc:
            f.common_pos = r.randrange(len(exts) + 1)
    if a["fake_clen"] is not None and last:
        f.clen = a["fake_clen"]
        return E.encode(f)
    return E.encode(f) + data


def hand_archive(r, now, nmembers=None, force=None):
    n = nmembers or r.choice([1, 1, 1, 2, 3, 4, 5, 6])
    return b"".join(build_member(r, i == 0, i == n - 1, now, force) for i in range(n))


def randfields_archive(r):
    n = r.choice([1, 1, 2, 3, 4, 5, 6])
    out = b""
    for i in range(n):
        f = hdrgen.rand_fields(r)
        if i < n - 1 or r.random() < 0.4:
            data = bytes(r.randrange(256) for _ in range(r.choice([0, 1, 5, 100, r.randrange(400)])))
            out += E.member(f, data)
        else:
            out += E.encode(f)
    return out


# ---------------------------------------------------------------------------------------------
# cases

class ListCase:
    __slots__ = ("mode", "qsuffix", "quiet", "now", "mtime", "filters", "archive", "tag", "args", "eff_mtime",
                 "c_out", "c_verdict", "c_err", "lean")

    def __init__(self, mode, qsuffix, now, mtime, filters, archive, tag):
        self.mode, self.qsuffix, self.now, self.mtime = mode, qsuffix, now, mtime
        self.filters, self.archive, self.tag = filters, archive, tag
        self.quiet = 0 if qsuffix == "" else (2 if qsuffix == "q" else min(2, int(qsuffix[1:])))


def rand_qsuffix(r):
    return r.choice(["", "", "", "q0", "q1", "q2", "q", "q", r.choice(["q3", "q9"])])


def rand_mtime(r, now):
    k = r.random()
    if k < 0.1:
        return r.choice([0, 1, M32 - 1, 2 ** 31 - 1, 2 ** 31, M32, M32 + 5, 2 * M32 + 86400, -1, -86400])
    if k < 0.4:
        return max(0, min(M32 - 1, now - HALF_YEAR + r.randrange(-2, 3)))
    if k < 0.5:
        return r.choice(CAL_POINTS)
    return r.randrange(M32)


def rand_filters(r, archive_names):
    k = r.random()
    if k < 0.7:
        return []
    out = []
    for _ in range(r.choice([1, 1, 2, 3])):
        j = r.random()
        if j < 0.3:
            out.append(b"*")
        elif j < 0.6 and archive_names:
            nm = r.choice(archive_names)
            nm = bytes(b for b in nm if b != 0)
            if r.random() < 0.5 and nm:
                i = r.randrange(len(nm))
                nm = nm[:i] + r.choice([b"*", b"?"]) + nm[i + (r.random() < 0.7):]
            out.append(nm)
        else:
            out.append(bytes(r.choice(b"ab*?XY01./") for _ in range(r.randrange(0, 5))))
    return out


def gen_list_cases(r):
    cases = []

    def add(archive, tag, now=None, mode=None, filters=None, mtime=None, qsuffix=None):
        now_ = rand_now(r) if now is None else now
        cases.append(ListCase(mode or r.choice(MODES), rand_qsuffix(r) if qsuffix is None else qsuffix, now_,
                              rand_mtime(r, now_) if mtime is None else mtime,
                              filters if filters is not None else [], archive, tag))

    # 1. random typed headers from hdrgen
    for _ in range(int(1200 * SCALE)):
        add(randfields_archive(r), "randfields", filters=rand_filters(r, [b"a", b"abc"]))
    # 2. hand-rolled members
    for _ in range(int(2600 * SCALE)):
        now = rand_now(r)
        add(hand_archive(r, now), "hand", now=now, filters=rand_filters(r, [b"a", b"abc", b"X"]))
    # 3. dense sweep around now - 15552000 for every level, in every mode
    for _ in range(int(120 * SCALE)):
        now = r.choice([rand_now(r), r.randrange(HALF_YEAR, M32)])
        lvl = r.randrange(4)
        arch = b""
        offs = list(range(-3, 4))
        for i, d in enumerate(offs):
            ts = now - HALF_YEAR + d
            if not (0 <= ts < M32):
                continue
            arch += build_member(r, i == 0, False, now, dict(level=lvl, ts=ts, tsmode="exact", kind="file",
                                                             uperm=0o100644 if lvl == 0 else None))
        if arch:
            add(arch, "stamp-sweep", now=now, mtime=max(0, min(M32 - 1, now - HALF_YEAR + r.randrange(-2, 3))))
    # 4. every OS type, levels 1..3 (no permissions: the OS name is printed)
    for lvl in (1, 2, 3):
        for mode in MODES:
            now = rand_now(r)
            arch = b"".join(build_member(r, False, False, now,
                                         dict(level=lvl, os=o, uperm=None, os9=None, kind="file", method=b"-lh5-"))
                            for o in range(256))
            add(arch, "os-sweep", now=now, mode=mode)
    # 5. full 16-bit sweeps: Unix permissions, OS-9 permissions, uid/gid
    chunk = 256
    step = max(1, int(round(1 / SCALE))) if SCALE < 1 else 1
    for base in range(0, 65536, chunk * step):
        now = rand_now(r)
        lvl = r.choice([1, 2, 3])
        members = []
        for v in range(base, base + chunk):
            kind = "link" if (v & 0o170000) == 0o120000 and v % 2 else r.choice(["file", "dir"])
            members.append(build_member(r, v == base, False, now,
                                        dict(level=lvl, uperm=v, os9=None, kind=kind, os=0x55, method=None if kind != "file" else b"-lh5-")))
        add(b"".join(members), "uperm-sweep", now=now)
        lvl = r.choice([0, 1, 2, 3])
        add(b"".join(build_member(r, v == base, False, now,
                                  dict(level=lvl, os9=v, uperm=None, kind=r.choice(["file", "dir"]),
                                       method=None))
                     for v in range(base, base + chunk)), "os9-sweep", now=now)
        lvl = r.choice([0, 1, 2, 3])
        mul = r.choice([1, 3, 7, 9999, 40503])
        add(b"".join(build_member(r, v == base, False, now,
                                  dict(level=lvl, uidgid=(v, (v * mul + 17) % 65536), kind="file", os9=None,
                                       uperm=0o100644 if lvl == 0 else None, method=b"-lh1-"))
                     for v in range(base, base + chunk)), "uidgid-sweep", now=now, mode=r.choice(["l", "lv", "v", "vv"]))
    # 6. level 0 'K' area: Unix permissions shown in OS-9 form
    for _ in range(int(40 * SCALE)):
        now = rand_now(r)
        add(hand_archive(r, now, force=dict(level=0, areatype=0x4b, uperm=r.randrange(65536), os9=None)), "l0-K", now=now)
    # 7. ratio column: single-member archives with a (possibly huge) packed size
    for _ in range(int(900 * SCALE)):
        now = rand_now(r)
        c, u = ratio_pair(r)
        add(build_member(r, True, True, now, dict(kind="file", length=u, fake_clen=c, datalen=0)), "ratio", now=now,
            mode=r.choice(["l", "v", "v", "vv", "lv"]))
    # 8. totals that wrap 2^32: big lengths everywhere, a small real packed size + a huge last one
    for _ in range(int(200 * SCALE)):
        now = rand_now(r)
        n = r.randrange(2, 7)
        arch = b""
        for i in range(n):
            arch += build_member(r, i == 0, i == n - 1, now,
                                 dict(kind="file", length=r.choice([M32 - 1, 2 ** 31, r.randrange(2 ** 31, M32)]),
                                      datalen=r.randrange(0, 40), fake_clen=r.choice([M32 - 1, M32 - 2, r.randrange(M32 - 50, M32)])))
        add(arch, "wrap", now=now, mode=r.choice(["v", "vv", "l", "lv"]), qsuffix=r.choice(["", "q0", "q1"]))
    # 9. empty / garbage archives
    for _ in range(int(20 * SCALE) + 2):
        add(bytes(r.randrange(256) for _ in range(r.choice([0, 1, 30, 200]))), "garbage")
    # 10. self-extractor style lead-in
    for _ in range(int(40 * SCALE)):
        now = rand_now(r)
        junk = bytes(r.choice(b"MZ\0\x90abc-lh") for _ in range(r.randrange(1, 300)))
        add(junk + hand_archive(r, now), "leadin", now=now)
    return cases


def c_args(r, case, path):
    cmd = "l" if case.mode in ("l", "lv") else "v"
    opts = []
    if case.mode in ("lv", "vv"):
        opts.append("v")
    if case.qsuffix:
        opts.append(case.qsuffix)
    if r.random() < 0.1:
        opts.append(r.choice(["f", "i", "n"]))
    r.shuffle(opts)
    # a digit-less 'q' must not be followed by a digit – none of our option strings starts with one
    arg1 = ("-" if r.random() < 0.2 else "") + cmd + "".join(opts)
    return [arg1, path] + list(case.filters)


def hexs(b):
    return b.hex() if b else "-"


def lean_line(case):
    flt = ",".join((f.hex() if f else "00") for f in case.filters) if case.filters else "-"
    return "list %s %d %d %d %s %s" % (case.mode, case.quiet, case.now, case.eff_mtime, flt, hexs(case.archive))


# ---------------------------------------------------------------------------------------------
# glob cases

def glob_archive(names):
    """level-2 Unix members, one per name (bytes; a name may contain '/' = path separator)"""
    out = b""
    for nm in names:
        i = nm.rfind(b"/")
        exts = []
        d, base = (nm[:i + 1], nm[i + 1:]) if i >= 0 else (b"", nm)
        if base:
            exts.append((E.EXT_FILENAME, base))
        if d:
            exts.append((E.EXT_PATH, d.replace(b"/", b"\xff")))
        out += E.encode(E.Fields(level=2, method=b"-lh0-" if base else b"-lhd-", os_type=0x55, time=1, exts=exts))
    return out


NAME_COL = 10 + 1 + 11 + 1 + 7 + 1 + 6 + 1 + 12 + 1     # offset of the NAME column of `lha l`


def listed_names(out):
    return [ln[NAME_COL:] for ln in out.split(b"\n")[:-1]]


# ---------------------------------------------------------------------------------------------

def main():
    seed = int(os.environ.get("VERIF_SEED", "1") or 1)
    ctx = core.Ctx("difftest_list", "tool", seed)
    r = ctx.rng
    mismatches = []
    ncases = 0
    try:
        ok, log = core.lake_build(["lhv"])
        if not ok:
            print(log[-3000:])
            print("difftest_list: lake build failed")
            return 2
        lhv = core.lhv_path()
        # build from a private snapshot of the sources (other jobs may patch /repo temporarily)
        import shutil, subprocess, hashlib
        snap = os.path.join(ctx.tmp, "repo")
        os.makedirs(snap)
        for d in ("src", "lib"):
            shutil.copytree(os.path.join(core.REPO, d), os.path.join(snap, d))
        for fn in os.listdir(core.REPO):
            if fn.endswith(".h"):
                shutil.copy(os.path.join(core.REPO, fn), snap)
        g = subprocess.run(["git", "-C", core.REPO, "rev-parse", "--short", "HEAD"], capture_output=True, text=True)
        dig = hashlib.sha1()
        for d in ("src", "lib"):
            for root, _, files in sorted(os.walk(os.path.join(snap, d))):
                for fn in sorted(files):
                    if fn.endswith((".c", ".h")):
                        dig.update(fn.encode() + b"\0" + open(os.path.join(root, fn), "rb").read())
        dirty = subprocess.run(["git", "-C", core.REPO, "status", "--porcelain", "--", "src", "lib"],
                               capture_output=True, text=True).stdout.strip()
        print("C sources: %s HEAD %s, src+lib digest %s%s" %
              (core.REPO, g.stdout.strip() or "?", dig.hexdigest()[:12],
               (" -- WARNING: working tree differs from HEAD:\n" + dirty) if dirty else ""))
        core.REPO = snap
        exe, log = core.build_lha(ctx, sanitize=False, extra_flags=[os.path.join(core.HARNESS, "list_probe.c")])
        if exe is None:
            print(log)
            print("difftest_list: building lha failed")
            return 2

        # ------------------------------------------------------------------ list
        cases = gen_list_cases(r)
        adir = os.path.join(ctx.tmp, "arch")
        os.makedirs(adir)
        for i, c in enumerate(cases):
            p = os.path.join(adir, "a%05d.lzh" % i)
            with open(p, "wb") as f:
                f.write(c.archive)
            os.utime(p, (c.mtime, c.mtime))
            st = os.stat(p)
            c.eff_mtime = (st.st_mtime_ns // 1_000_000_000) % M32      # (unsigned int) st_mtime
            c.args = c_args(r, c, p)

        def run_c(c):
            rc, out, err, verdict = core.run_cli(exe, c.args, ctx.tmp, env={"TEST_NOW_TIME": str(c.now)})
            c.c_out, c.c_verdict, c.c_err = out, verdict, err
        with ThreadPoolExecutor(core.JOBS) as ex:
            list(ex.map(run_c, cases))
        outs, crashes = core.run_lines_parallel([lhv], [lean_line(c) for c in cases])
        tags = {}
        for c, lo in zip(cases, outs):
            c.lean = lo
            ncases += 1
            tags[c.tag] = tags.get(c.tag, 0) + 1
            if c.c_verdict != "ok" or hexs(c.c_out) != lo:
                mismatches.append(("list", c))
        print("list cases by kind:", " ".join("%s=%d" % kv for kv in sorted(tags.items())))
        rows, empty = 0, 0
        for c in cases:
            n = (c.c_out.count(b"\n") - (4 if c.quiet < 2 else 0)) // (2 if c.mode in ("lv", "vv") else 1)
            rows += max(n, 0)
            empty += n <= 0
        print("list cases: %d archives, %d member rows listed by the C, %d listings without a row" % (len(cases), rows, empty))

        # ------------------------------------------------------------------ glob
        # (a) exhaustive over {a,b,*,?}: patterns of length 0..4 x strings of length 0..4
        alph = b"ab*?"
        words = list(hdrgen.words(alph, 4))
        glob_lines, glob_meta = [], []
        names = [w for w in words if w]
        arch = glob_archive(names)
        apath = os.path.join(ctx.tmp, "glob-exh.lzh")
        open(apath, "wb").write(arch)

        def run_glob(pat_and_path):
            pat, path = pat_and_path
            rc, out, err, verdict = core.run_cli(exe, ["lq", path, pat], ctx.tmp, env={"TEST_NOW_TIME": "0"})
            return out, verdict
        with ThreadPoolExecutor(core.JOBS) as ex:
            res = list(ex.map(run_glob, [(p, apath) for p in words]))
        cres = {}
        for p, (out, verdict) in zip(words, res):
            got = listed_names(out) if verdict == "ok" else None
            for s in words:
                glob_lines.append("glob %s %s" % (hexs(p), hexs(s)))
                if not s:
                    cv = None                       # the empty name cannot be an archive member
                elif got is None:
                    cv = "CRASH"
                else:
                    cv = "1" if s in got else "0"
                glob_meta.append((p, s, cv, "exh"))
        # (b) random: bigger alphabet, paths, several names per archive, 1-3 patterns per run; the C's
        # listing is compared with the `list` op (whole pipeline), the pairs with the `glob` op
        galph = [b"a", b"b", b"c", b"*", b"?", b".", b"/", b"A", b"\x80", b"\x01", b"[", b"\\", b"ab", b"**"]
        rnd_jobs = []
        for k in range(int(60 * SCALE) + 1):
            nms = set()
            while len(nms) < 30:
                w = b"".join(r.choice(galph) for _ in range(r.randrange(1, 9)))
                w = w.replace(b"//", b"/x")
                if w.startswith(b"/"):
                    w = b"r" + w
                nms.add(w)
            nms = sorted(nms)
            garch = glob_archive(nms)
            p = os.path.join(ctx.tmp, "glob-r%d.lzh" % k)
            open(p, "wb").write(garch)
            for _ in range(12):
                pats = []
                for _ in range(r.choice([1, 1, 1, 2, 3])):
                    if r.random() < 0.5:
                        pat = b"".join(r.choice(galph) for _ in range(r.randrange(0, 7)))
                    else:
                        base = r.choice(nms)
                        pat = b"".join((r.choice([b"*", b"?", b"", bytes([ch])]) if r.random() < 0.35 else bytes([ch]))
                                       for ch in base)
                    pats.append(pat)
                rnd_jobs.append((pats, p, nms, garch))

        def run_globs(job):
            pats, path = job[0], job[1]
            rc, out, err, verdict = core.run_cli(exe, ["lq", path] + pats, ctx.tmp, env={"TEST_NOW_TIME": "0"})
            return out, verdict
        with ThreadPoolExecutor(core.JOBS) as ex:
            res = list(ex.map(run_globs, rnd_jobs))
        rnd_lines = ["list l 2 0 0 %s %s" % (",".join((q.hex() if q else "00") for q in pats), hexs(garch))
                     for (pats, p, nms, garch) in rnd_jobs]
        routs, _ = core.run_lines_parallel([lhv], rnd_lines)
        for (pats, p, nms, garch), (out, verdict), lo in zip(rnd_jobs, res, routs):
            if verdict != "ok" or hexs(out) != lo:
                mismatches.append(("glob-c-listing", (pats, None, "model lists %r" % lo, "C lists %r (%s)" % (out, verdict))))
            for pat in pats:
                for s in nms:
                    glob_lines.append("glob %s %s" % (hexs(pat), hexs(s)))
                    glob_meta.append((pat, s, None, "rnd"))
        gouts, gcr = core.run_lines_parallel([lhv], glob_lines)
        for (pat, s, cv, kind), lo in zip(glob_meta, gouts):
            ncases += 1
            if len(lo) != 2 or lo[0] != lo[1] or lo[0] not in "01":
                mismatches.append(("glob-model-vs-spec", (pat, s, lo, cv)))
            elif cv is not None and cv != lo[0]:
                mismatches.append(("glob-c", (pat, s, lo, cv)))
        print("glob cases: %d (exhaustive %d, random %d, C invocations %d)" %
              (len(glob_lines), len(words) ** 2, len(glob_lines) - len(words) ** 2, len(words) + len(rnd_jobs)))

        # ------------------------------------------------------------------ direct column probes
        # the static printers of list.c (ratio, timestamps) driven without an archive: the packed size of a
        # listed member is bounded by the file size except for the last member, this is not
        plines, llines = [], []
        for _ in range(int(60000 * SCALE)):
            c, u = ratio_pair(r) if r.random() < 0.7 else (rand_size(r), rand_size(r))
            k = r.choice("rf")
            plines.append("%s %d %d" % (k, c, u))
            llines.append("ratio %s %d %d" % ("row" if k == "r" else "foot", c, u))
        for _ in range(int(60000 * SCALE)):
            now = rand_now(r)
            ts = rand_ts(r, now) if r.random() < 0.6 else r.randrange(M32)
            if r.random() < 0.6:
                plines.append("t %d %d" % (now, ts)); llines.append("stamp %d %d" % (now, ts))
            else:
                plines.append("T %d %d" % (now, ts)); llines.append("fullstamp %d" % ts)
        for ts in CAL_POINTS:
            plines.append("T 0 %d" % ts); llines.append("fullstamp %d" % ts)
            plines.append("t %d %d" % (M32 - 1, ts)); llines.append("stamp %d %d" % (M32 - 1, ts))
        for day in range(0, M32 // 86400 + 1, 7):          # one day of every week from 1970 to 2106
            ts = min(M32 - 1, day * 86400 + r.randrange(86400))
            plines.append("T 0 %d" % ts); llines.append("fullstamp %d" % ts)
        pr = subprocess.run([exe], input=("\n".join(plines) + "\n").encode(), capture_output=True,
                            env=dict(os.environ, TZ="UTC", LC_ALL="C", LHV_LIST_PROBE="1"))
        pouts = pr.stdout.split(b"\n")[:-1]
        louts, _ = core.run_lines_parallel([lhv], llines)
        if len(pouts) != len(plines):
            mismatches.append(("probe", ("probe produced %d answers for %d requests (rc %d)" % (len(pouts), len(plines), pr.returncode), "", "", "")))
        else:
            for req, po, lo in zip(plines, pouts, louts):
                ncases += 1
                if hexs(po) != lo:
                    mismatches.append(("probe", (req, None, lo, repr(po))))
        print("direct column probes: %d (%d distinct ratio texts)" %
              (len(plines), len({po for q, po in zip(plines, pouts) if q[0] in "rf"})))

        # ------------------------------------------------------------------ report
        print("difftest_list: %d cases, %d mismatches" % (ncases, len(mismatches)))
        for kind, m in mismatches[:5]:
            print("-" * 100)
            if kind == "list":
                c = m
                print("MISMATCH list [%s] mode=%s quiet=%s now=%d mtime=%d (effective %d) filters=%r" %
                      (c.tag, c.mode, c.qsuffix or "(none)", c.now, c.mtime, c.eff_mtime, c.filters))
                print("  command : TEST_NOW_TIME=%d TZ=UTC lha %s" % (c.now, " ".join(repr(x) for x in c.args)))
                print("  archive : %s" % hexs(c.archive))
                print("  C verdict: %s %s" % (c.c_verdict, core.short(c.c_err, 300) if c.c_verdict != "ok" else ""))
                print("  C stdout:")
                for ln in c.c_out.split(b"\n"):
                    print("    %r" % ln)
                print("  Lean model:")
                try:
                    lb = bytes.fromhex(c.lean) if c.lean != "-" else b""
                    for ln in lb.split(b"\n"):
                        print("    %r" % ln)
                except ValueError:
                    print("    %s" % core.short(c.lean, 400))
            else:
                print("MISMATCH %s pattern=%r string=%r lean=%s C=%s" % (kind, m[0], m[1], m[2], m[3]))
        return 1 if mismatches else 0
    finally:
        ctx.cleanup()


if __name__ == "__main__":
    sys.exit(main())
