#!/usr/bin/env python3
"""mk_mutation_prompt.py <round> <Cnn>...: writes /tmp/mutprompt<round>-<Cnn>.txt – the prompt given to a fresh sub-agent that is to
seed a property-breaking change: ONLY the property's text, the path of its own scratch worktree (/tmp/mut-<Cnn>-r<round>, made with
tools/mk_worktree.sh) and the one-line summaries of the earlier seeds of that property ("choose something different"); nothing else
from /verif."""
import json, sys, glob, os
VERIF = os.path.dirname(os.path.dirname(os.path.abspath(__file__)))
rnd, ids = sys.argv[1], sys.argv[2:]
tmpl = open(os.path.join(VERIF, "tools", "mutation_prompt_template.txt")).read()
props = {json.loads(l)["id"]: json.loads(l) for l in open(os.path.join(VERIF, "properties.jsonl"))}
for i in ids:
    prev = []
    for d in sorted(glob.glob(os.path.join(VERIF, "seeded", i + "-m*"))):
        l = open(d + "/notes.txt").read().split("\n")
        s = l[0].strip()
        if len(s) < 80 and len(l) > 1:
            s += " " + l[1].strip()
        prev.append("  - " + s)
    body = tmpl.replace("@ID@", i).replace("@ROUND@", rnd).replace("@PROPERTY@", json.dumps(props[i], indent=1)).replace("@EARLIER@", "\n".join(prev))
    open("/tmp/mutprompt%s-%s.txt" % (rnd, i), "w").write(body)
    print(i, len(prev))
