#!/usr/bin/env python3
"""try_seeds_par.py [--tier quick] [--jobs N] [--patch <dir> --prop Cnn[,Cmm]]... [<seed-id>...]

The same as try_seeds.py, but /repo is never touched: each of N workers owns a private copy of /verif (with its Lean build
directory) and a private git worktree of /repo under /tmp, applies the seeded patch THERE, runs the property's check
against it (LHASA_REPO), undoes the patch, and the parent records the outcome in seeded/<id>/meta.json (unless TRY_NOREC).
The copies are removed at the end.  (The registered checks themselves always run from /verif against /repo; this is only
the seed-evaluation harness.)

  --patch <dir> --prop Cnn   evaluate a not yet confirmed change: <dir>/patch.diff against property Cnn (nothing recorded)
"""
import sys, os, json, subprocess, glob, shutil, threading, queue, time
VERIF = os.path.dirname(os.path.dirname(os.path.abspath(__file__)))
args = sys.argv[1:]
tier, jobs, extra = "quick", 5, []
ids = []
while args:
    a = args.pop(0)
    if a == "--tier": tier = args.pop(0)
    elif a == "--jobs": jobs = int(args.pop(0))
    elif a == "--patch":
        d = args.pop(0); assert args.pop(0) == "--prop"
        for p in args.pop(0).split(","):
            extra.append((os.path.basename(d.rstrip("/")), p, os.path.join(d, "patch.diff"), None))
    else: ids.append(a)
if not ids and not extra:
    ids = sorted(os.path.basename(os.path.dirname(p)) for p in glob.glob(VERIF + "/seeded/*/patch.diff"))
tasks = [(sid, sid.split("-")[0], os.path.join(VERIF, "seeded", sid, "patch.diff"), os.path.join(VERIF, "seeded", sid, "meta.json"))
         for sid in ids] + extra
q = queue.Queue()
for t in tasks: q.put(t)
results = []
lock = threading.Lock()
base = "/tmp/seedpar-%d" % os.getpid()
os.makedirs(base)


def sh(cmd, **kw):
    return subprocess.run(cmd, capture_output=True, text=True, **kw)


def worker(k):
    vw, rw = "%s/verif-%d" % (base, k), "%s/repo-%d" % (base, k)
    sh(["rsync", "-a", "--exclude", ".git", "--exclude", "evidence", VERIF + "/", vw + "/"])
    os.makedirs(vw + "/evidence", exist_ok=True)
    sh(["git", "-C", "/repo", "worktree", "add", "--detach", rw, "HEAD"])
    shutil.copy("/repo/config.h", rw + "/config.h")
    env = dict(os.environ); env["LHASA_REPO"] = rw; env["VERIF_EVIDENCE_DIR"] = vw + "/evidence"; env["VERIF_NO_COVERAGE"] = "1"
    try:
        while True:
            try: sid, prop, patch, meta_p = q.get_nowait()
            except queue.Empty: break
            r = sh(["git", "-C", rw, "apply", patch])
            if r.returncode != 0:
                with lock: print(sid, prop, "patch does not apply", flush=True)
                continue
            t0 = time.time()
            try:
                r = sh(["python3", "check.py", prop, "--tier", tier], cwd=vw, env=env)
            finally:
                sh(["git", "-C", rw, "checkout", "--", "."])
            out = r.stdout
            v = [l for l in out.split("\n") if l.startswith("VIOLATION")]
            kind = "missed"
            if v: kind = "no-failing-input-found" if "no-failing-input-found" in v[0] else "concrete-replay"
            tie = [l for l in out.split("\n") if l.startswith(("[tie]", "[search]", "[lean]", "[gen]"))]
            with lock:
                print(sid, prop, tier, "->", kind, "(%.0fs)" % (time.time() - t0), flush=True)
                if kind == "missed" and meta_p is None:
                    print("\n".join("    " + l for l in out.split("\n")[-12:]))
                if meta_p and not os.environ.get("TRY_NOREC"):
                    meta = json.load(open(meta_p))
                    det = meta.get("detected_by") or {}
                    if not isinstance(det, dict): det = {}
                    det["%s/%s" % (prop, tier)] = {"result": kind, "rc": r.returncode, "verdict": v[0] if v else "OK (not detected)",
                                                   "log": [l.replace(vw, "/verif").replace(rw, "/repo") for l in tie[-4:]]}
                    det["%s/%s" % (prop, tier)]["verdict"] = det["%s/%s" % (prop, tier)]["verdict"].replace(vw, "/verif")
                    meta["detected_by"] = det
                    json.dump(meta, open(meta_p, "w"), indent=1)
                results.append((sid, prop, kind))
                if meta_p is None:
                    open("%s-%s-%s.log" % (base, sid, prop), "w").write(out + "\n" + r.stderr[-3000:])
    finally:
        sh(["git", "-C", "/repo", "worktree", "remove", "--force", rw])
        shutil.rmtree(vw, ignore_errors=True)


th = [threading.Thread(target=worker, args=(k,)) for k in range(min(jobs, len(tasks)))]
for t in th: t.start()
for t in th: t.join()
shutil.rmtree(base, ignore_errors=True)
sh(["git", "-C", "/repo", "worktree", "prune"])
from collections import Counter
print("%d evaluated: %s" % (len(results), dict(Counter(k for _, _, k in results))))
