#!/bin/bash
# confirm_seed.sh <seed-id> <dir with patch.diff + demo.sh ...>
# Confirms in a fresh scratch worktree: builds, test suite passes, demo fails on the mutant, demo passes on clean.
# Copies the seed into /verif/seeded/<seed-id>/ with meta.json (fields filled from the run).
set -u
id="$1"; src="$2"; prop="${id%%-*}"
wt="/tmp/seedwt-$id"
out="/verif/seeded/$id"
rm -rf "$wt"; git -C /repo worktree prune
/verif/tools/mk_worktree.sh "$wt" >/dev/null 2>&1 || { echo "$id: worktree build failed"; exit 2; }
mkdir -p "$out"
cp -a "$src"/. "$out"/
cd "$wt"
# clean-tree demo first
( bash "$out/demo.sh" "$wt" ) > "$out/confirm_demo_clean.txt" 2>&1; rc_clean=$?
git apply "$out/patch.diff" || { echo "$id: patch does not apply"; exit 2; }
make -j16 > "$out/confirm_build.txt" 2>&1; rc_build=$?
make check -j8 > /tmp/seedwt-$id.check 2>&1; rc_check=$?
grep -E "^(PASS|FAIL|XFAIL|ERROR|# (TOTAL|PASS|FAIL))" /tmp/seedwt-$id.check > "$out/confirm_check.txt"
( bash "$out/demo.sh" "$wt" ) > "$out/confirm_demo_mutant.txt" 2>&1; rc_mut=$?
npass=$(grep -c "^PASS" "$out/confirm_check.txt"); nfail=$(grep -c "^FAIL" "$out/confirm_check.txt")
cd /; git -C /repo worktree remove --force "$wt"; rm -f /tmp/seedwt-$id.check
python3 - "$id" "$prop" "$rc_build" "$rc_check" "$npass" "$nfail" "$rc_mut" "$rc_clean" <<'PY'
import sys, json, os
id, prop, rc_build, rc_check, npass, nfail, rc_mut, rc_clean = sys.argv[1:]
out = "/verif/seeded/" + id
notes = open(out + "/notes.txt").read() if os.path.exists(out + "/notes.txt") else ""
meta = {"seed": id, "property": prop,
        "confirmed": {"build_rc": int(rc_build), "make_check_rc": int(rc_check), "tests_pass": int(npass),
                      "tests_fail": int(nfail), "demo_rc_on_mutant": int(rc_mut), "demo_rc_on_clean": int(rc_clean)},
        "ok": int(rc_build) == 0 and int(rc_check) == 0 and int(nfail) == 0 and int(rc_mut) != 0 and int(rc_clean) == 0,
        "what_ran": "tools/confirm_seed.sh: fresh worktree of /repo; demo.sh on clean tree; git apply patch.diff; make -j16; make check -j8; demo.sh on mutant",
        "needs_to_manifest": "see notes.txt (written by the seeding sub-agent)",
        "detected_by": None}
old = {}
if os.path.exists(out + "/meta.json"):
    try: old = json.load(open(out + "/meta.json"))
    except Exception: pass
for k in ("detected_by", "needs_to_manifest", "summary"):
    if old.get(k): meta[k] = old[k]
json.dump(meta, open(out + "/meta.json", "w"), indent=1)
print(id, "confirmed" if meta["ok"] else "NOT CONFIRMED", meta["confirmed"])
PY
