#!/usr/bin/env python3
"""Validate MANIFEST.json and evidence/*.json against the schemas in /root/.vp (run with python3-vt for jsonschema)."""
import json, glob, sys
try:
    import jsonschema
except ImportError:
    print("jsonschema not available in this interpreter (use python3-vt)"); sys.exit(2)
bad = 0
man = json.load(open("/verif/MANIFEST.json"))
try:
    jsonschema.validate(man, json.load(open("/root/.vp/MANIFEST.schema.json")))
    print("MANIFEST ok: %d checks, %d not_applicable" % (len(man["checks"]), len(man.get("not_applicable", []))))
except Exception as e:
    print("MANIFEST INVALID:", str(e)[:300]); bad += 1
es = json.load(open("/root/.vp/EVIDENCE.schema.json"))
for c in man["checks"]:
    f = c["evidence_file"]
    try:
        d = json.load(open(f))
        jsonschema.validate(d, es)
        cov = d["coverage"]
        note = ""
        if d["level"] == "proof" and cov.get("obligations") != cov.get("discharged"):
            note = " DISCHARGED != OBLIGATIONS"; bad += 1
        if d.get("violations"):
            note += " violations=%s" % d["violations"]
        print("%s ok level=%s obl=%s dis=%s evals=%s nontrivial=%s%s" % (c["property_id"], d["level"], cov.get("obligations"),
              cov.get("discharged"), cov.get("evaluations"), cov.get("distinct_nontrivial"), note))
    except Exception as e:
        print(c["property_id"], "INVALID:", str(e)[:200]); bad += 1
sys.exit(1 if bad else 0)
