#!/usr/bin/env python3
"""Rewrite the block between <!-- SEEDS-BEGIN --> and <!-- SEEDS-END --> in DESIGN.md from seeded/*/meta.json."""
import os, json, glob, re
VERIF = os.path.dirname(os.path.dirname(os.path.abspath(__file__)))
rows = []
for mp in sorted(glob.glob(os.path.join(VERIF, "seeded", "*", "meta.json"))):
    sid = os.path.basename(os.path.dirname(mp))
    m = json.load(open(mp))
    notes = os.path.join(os.path.dirname(mp), "notes.txt")
    title = ""
    if os.path.exists(notes):
        for line in open(notes, errors="replace"):
            line = line.strip()
            if line and not set(line) <= set("=-"):
                title = line
                break
    title = re.sub(r"^Mutant\s+\S+\s*(\([^)]*\))?\s*[:—-]*\s*", "", title)[:150]
    det = m.get("detected_by") or {}
    res = "; ".join("%s: %s" % (k, v.get("result")) for k, v in sorted(det.items())) or "not run"
    rows.append("| %s | %s | %s | %s |" % (sid, m.get("property", sid.split("-")[0]), title.replace("|", "/"), res))
block = ("<!-- SEEDS-BEGIN -->\n| seed | property | change (first line of the seeding agent's notes) | result of the property's check with the change applied |\n"
         "|---|---|---|---|\n" + "\n".join(rows) + "\n<!-- SEEDS-END -->")
p = os.path.join(VERIF, "DESIGN.md")
s = open(p).read()
if "<!-- SEEDS-BEGIN -->" in s:
    s = re.sub(r"<!-- SEEDS-BEGIN -->.*?<!-- SEEDS-END -->", lambda _: block, s, flags=re.S)
else:
    s += "\n" + block + "\n"
open(p, "w").write(s)
print(len(rows), "seeds")
