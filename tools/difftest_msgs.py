#!/usr/bin/env python3
"""Differential test of the Lean model of the messages of `lha t…` / `lha x…` / `lha e…`
(lean/LhasaV/Model/Messages.lean) against the real `lha` tool built from /repo.

An archive is generated (trees with files of every method, directories, safe and dangerous symbolic
links, MacBinary members, members with a wrong CRC / wrong declared length / damaged or truncated
data / unknown method, long and hostile names with control bytes, files large enough for multi-block
and scaled progress bars).  The real tool is run on it as root with TZ=UTC in a private directory
(vlib/sandbox.py) with the commands t, tq, tq0, tq1, tn, tv, x, e, xq, xq0, xq1, xn, xf, xi, xw=DIR and
combinations, with and without wildcard arguments, pre-existing objects and prompt answers.
Compared with lhv's `msgt` / `msgx` ops:

  stdout  : the bytes written to standard output
  rc      : the exit status
  stderr  : the bytes written to standard error
  tree    : the resulting directory tree (x/e only)
  agree   : the Messages loop and `Extract.run` agree on result flag, abort flag and tree (model-internal;
            not counted when the answers contain NUL bytes or an unterminated last line, which only
            Messages.readLine treats like prompt_user, nor when a file / link member's path ends in '/',
            where only Messages applies the POSIX trailing-slash rule)
  crash   : the real tool crashed (sanitizer report / signal)

Prints `difftest_msgs: <n> cases, <k> mismatches` and for the first mismatches a block starting with
`MISMATCH <kind> …` followed by indented detail lines; exit status 1 on any mismatch.
Environment: VERIF_SEED (default 1), DIFFTEST_SCALE (float, default 1.0).
"""
import os, sys, re, copy
from concurrent.futures import ThreadPoolExecutor

sys.path.insert(0, os.path.dirname(os.path.dirname(os.path.abspath(__file__))))
from vlib import core, treegen as T, sandbox as SB, lhaenc as E, lhnewgen as LG, pmgen as PG
from props import C06

SCALE = float(os.environ.get("DIFFTEST_SCALE", "1.0"))
T0 = 1_000_000_000


def hx(b):
    return b.hex() or "-"


# a table-driven CRC-16/ARC with a small cache in place of the bit-serial one of vlib (same function, faster)
_CRC_TAB = []
for _i in range(256):
    _c = _i
    for _ in range(8):
        _c = (_c >> 1) ^ 0xA001 if _c & 1 else _c >> 1
    _CRC_TAB.append(_c)
_crc_cache = {}


def fast_crc16(data, crc=0):
    key = None
    if crc == 0 and len(data) > 4096:
        key = bytes(data)
        if key in _crc_cache:
            return _crc_cache[key]
    tab = _CRC_TAB
    for b in data:
        crc = (crc >> 8) ^ tab[(crc ^ b) & 0xff]
    if key is not None and len(_crc_cache) < 4096:
        _crc_cache[key] = crc
    return crc


assert fast_crc16(b"123456789") == E.crc16(b"123456789") == 0xBB3D
E.crc16 = T.crc16 = SB.crc16 = fast_crc16


# ---------------------------------------------------------------------------------------------
# member contents: expansions of valid streams serialised by the Lean format specs

POOL = {}


def fill_pool(r, lhv):
    """method -> [(data, compressed)]"""
    descs = []
    for meth in ("lh4", "lh5", "lh6", "lh7", "lhx", "lk7"):
        for _ in range(5):
            d, tags, produced = LG.gen_stream(r, meth, "small")
            descs.append((meth, "lhnser %s %s" % (meth, d), "lhnexp %s %s" % (meth, d)))
    # several blocks of the progress bar: -lh4- has 4096-byte blocks, -lh5- 8192-byte blocks
    for meth in ("lh4", "lh5", "lh4"):
        d, tags, produced = LG.gen_stream(r, meth, "medium")
        descs.append((meth, "lhnser %s %s" % (meth, d), "lhnexp %s %s" % (meth, d)))
    for _ in range(5):
        g = None
        while g is None:
            g = PG.gen_pm2(r, r.choice([10, 300, 1500, 9000]), r.choice(["mixed", "bytes", "small"]))
        f, rb, cm, n, tags = g
        descs.append(("pm2", "pm2ser %d %s %s" % (f, rb, cm), "pm2exp %d %s %s" % (f, rb, cm)))
        t, cm, n, tags = PG.gen_pm1(r, r.choice([10, 300, 1500, 5000]))
        descs.append(("pm1", "pm1ser %d %s" % (t, cm), "pm1exp %d %s" % (t, cm)))
    for meth in ("lzs", "lz5"):
        for _ in range(5):
            cmds = ",".join("L%02x" % r.randrange(256) for _ in range(r.choice([1, 5, 40, 300, 5000])))
            descs.append((meth, "lzser %s %s" % (meth, cmds), "lzexp %s %s" % (meth, cmds)))
    for _ in range(5):
        cmds = ",".join(("L%02x" % r.randrange(65, 91)) if r.random() < 0.7 else "C%d.%d" % (r.randrange(64), r.randrange(3, 20))
                        for _ in range(r.choice([1, 5, 40, 300, 2500])))
        descs.append(("lh1", "lh1ser " + cmds, "lh1exp " + cmds))
    ser, _ = core.run_lines_parallel([lhv], [d[1] for d in descs])
    exp, _ = core.run_lines_parallel([lhv], [d[2] for d in descs])
    for (meth, _, _), s, e in zip(descs, ser, exp):
        s = s.split()[-1] if s.startswith("ok") else s
        if s in ("invalid", "bad-op") or e == "bad-op" or "FAULT" in s or "FAULT" in e:
            continue
        try:
            comp = b"" if s == "-" else bytes.fromhex(s)
            data = b"" if e == "-" else bytes.fromhex(e)
        except ValueError:
            continue
        if len(data) > 200000:
            continue                    # keeps the hex lines and the pure-python bookkeeping small
        POOL.setdefault(meth, []).append((data, comp))


STORED = (b"-lh0-", b"-lz4-", b"-pm0-")


def assign_contents(r, entries):
    """give every file entry a method, content and compressed form (e.comp)"""
    for e in entries:
        if e.kind != "file":
            continue
        k = r.random()
        if k < 0.4 or not POOL:
            e.method = r.choice(STORED)
            if r.random() < 0.25 and e.mtime > 100000:
                C06.macbinary_member(r, e)
            e.comp = e.data
        else:
            meth = r.choice(sorted(POOL))
            data, c = r.choice(POOL[meth])
            e.method = ("-%s-" % meth).encode()
            e.data, e.comp = data, c
            if meth == "lk7":
                e.method, e.level, e.os_type = b"-lh7-", 1, 0x20      # how LHark labels its members
        if e.method.startswith(b"-pm") and e.level == 0:
            e.level = 2
    for e in entries:
        if e.kind == "dir" and e.level == 0:
            e.level = 2
        if e.level == 0 and e.perms is None:
            e.level = 1


FAILS = ["flip", "crc", "len+", "len-", "method", "lenbig", "lenmid"]


def inject_failure(r, e, last):
    """damage file entry `e`; returns the tag"""
    kind = r.choice(FAILS + (["trunc", "trunc"] if last else []))
    e.level = 2
    if kind == "lenbig" and e.method not in STORED:
        # a compressed stream may go on producing megabytes from its padding bits: fine for the C, far too slow
        # for the executable model, so the long bars are drawn for stored members only
        e.method, e.comp = r.choice(STORED), e.data
    e.decl_len, e.decl_crc = len(e.data), E.crc16(e.data)
    if kind == "flip":
        if not e.comp:
            kind = "crc"
        else:
            i = r.randrange(len(e.comp))
            e.comp = e.comp[:i] + bytes([e.comp[i] ^ (1 << r.randrange(8))]) + e.comp[i + 1:]
    if kind == "crc":
        e.decl_crc ^= r.randrange(1, 65536)
    elif kind == "len+":
        e.decl_len += r.choice([1, 2, 100, 2048, 5000])
    elif kind == "lenmid":
        # compressed members too: the decoder may keep producing output from padding bits up to the declared length
        e.decl_len += r.choice([20000, 70000])
    elif kind == "lenbig":
        # a long bar: many blocks declared, few delivered
        e.decl_len = r.choice([58 * 2048, 58 * 2048 + 1, 57 * 2048 + 1, 59 * 2048, 116 * 2048 + 1, 10 ** 6, 10 ** 7, 2 ** 31, 2 ** 32 - 1,
                               r.randrange(2 ** 32)])
    elif kind == "len-":
        if e.decl_len == 0:
            e.decl_crc ^= 1
            kind = "crc"
        else:
            e.decl_len -= r.randrange(1, e.decl_len + 1)
    elif kind == "method":
        e.method = r.choice([b"-lh2-", b"-lh3-", b"-lh8-", b"-xyz-", b"-lzz-", b"-pm3-"])
    elif kind == "trunc":
        if not e.comp:
            e.decl_crc ^= 1
            kind = "crc"
        else:
            e.trunc = r.randrange(0, len(e.comp))
    e.failtag = kind
    return kind


def split_path(e):
    path = e.path
    if e.kind == "dir":
        return path, b""
    i = path.rfind(b"/")
    return (path[:i + 1], path[i + 1:]) if i >= 0 else (b"", path)


def encode_member(e):
    if e.kind != "file":
        return T.encode_entry(e)
    if not hasattr(e, "decl_len"):
        return T.encode_entry(e, lambda m, d: e.comp)
    d, name = split_path(e)
    f = E.Fields(level=2, method=e.method, clen=len(e.comp), length=e.decl_len, crc=e.decl_crc, os_type=e.os_type, time=e.mtime)
    if name:
        f.exts.append((E.EXT_FILENAME, name))
    if d:
        f.exts.append((E.EXT_PATH, d.replace(b"/", b"\xff")))
    if e.perms is not None:
        f.exts.append((E.EXT_PERM, (e.perms & 0xffff).to_bytes(2, "little")))
    f.common_crc = True
    comp = e.comp
    if hasattr(e, "trunc"):
        comp = comp[:e.trunc]
    return E.encode(f) + comp


def encode_archive(entries):
    out = b"".join(encode_member(e) for e in entries)
    if entries and hasattr(entries[-1], "trunc"):
        return out
    return out + b"\0"


HOSTILE = [0x01, 0x07, 0x08, 0x09, 0x0a, 0x0d, 0x1b, 0x7f, 0x80, 0x9b, 0xfe, 0x20, 0x2a, 0x3f, 0x7e, 0x5c, 0x7c, 0x25, 0x41, 0x61]


def hostile_name(r, maxlen=20):
    n = r.choice([1, 3, 8, maxlen, r.randrange(1, maxlen + 1)])
    k = r.random()
    if k < 0.5:
        s = bytes(r.choice(HOSTILE) for _ in range(n))
    elif k < 0.8:
        s = bytes(r.choice([r.randrange(1, 256), 0x61, 0x62]) for _ in range(n))
    else:
        s = b"\x1b[2J\x1b]0;pwned\x07" + bytes(r.choice(b"abc") for _ in range(3))
    s = s.replace(b"/", b"_").replace(b"\xff", b"\xfe")
    if s in (b".", b".."):
        s = b"x" + s
    return s


def hostile_tree(r):
    """a flat-ish tree whose names and link targets contain control bytes, escape sequences, '%', long runs"""
    ents = []
    dirs = [b""]
    for _ in range(r.randrange(1, 3)):
        d = hostile_name(r, 12) + b"/"
        ents.append(T.Entry("dir", d, perms=0o40755, mtime=T0 + r.randrange(10 ** 8)))
        dirs.append(d)
    used = set()
    for _ in range(r.randrange(2, 7)):
        d = r.choice(dirs)
        nm = hostile_name(r, r.choice([20, 60, 200]))
        if (d, nm) in used:
            continue
        used.add((d, nm))
        k = r.random()
        if k < 0.25:
            tgt = r.choice([hostile_name(r, 30), b"../" + hostile_name(r, 10), b"/" + hostile_name(r, 10), hostile_name(r, 5) + b"/" + hostile_name(r, 5)])
            tgt = tgt.replace(b"|", b"!")
            ents.append(T.Entry("link", d + nm.replace(b"|", b"!"), target=tgt))
        else:
            data = bytes(r.randrange(256) for _ in range(r.choice([0, 1, 10, 100, 3000])))
            ents.append(T.Entry("file", d + nm, data=data, perms=r.choice([0o100644, None]), mtime=T0 + r.randrange(10 ** 8)))
    # keep each directory's members together (directory-first order)
    ents.sort(key=lambda e: (e.path.split(b"/")[0] if b"/" in e.path else b"", e.kind != "dir"))
    return ents


def mac_short(r, declared, present):
    e = T.Entry("file", b"mac%d_%d" % (declared, present), data=bytes(r.randrange(1, 256) for _ in range(present)), perms=0o100644,
                mtime=T0, os_type=0x6d)
    e.comp = e.data
    e.decl_len, e.decl_crc = declared, E.crc16(e.data)
    return e


BAR_SIZES = [2047, 2048, 2049, 4096, 4097, 57 * 2048, 57 * 2048 + 1, 58 * 2048, 58 * 2048 + 1, 59 * 2048 + 7, 116 * 2048, 116 * 2048 + 1,
             117 * 2048 + 5, 175 * 2048 + 1]


def bar_tree(r):
    """stored members sized around the block and scale boundaries of the progress bar"""
    ents = []
    for i in range(r.choice([1, 1, 2])):
        n = r.choice(BAR_SIZES)
        blk = bytes(r.randrange(256) for _ in range(509))
        data = (blk * (n // 509 + 1))[:n]
        ents.append(T.Entry("file", b"bar%d_%d" % (i, n), data=data, perms=0o100644, mtime=T0 + i, method=r.choice(STORED)))
    return ents


# ---------------------------------------------------------------------------------------------
# cases

class MCase:
    pass


T_CMDS = [("t", []), ("t", ["q"]), ("t", ["q1"]), ("t", ["q0"]), ("t", ["n"]), ("t", ["v"]), ("t", ["q2"]), ("t", ["n", "q"]), ("t", ["q7"]),
          ("t", ["i"]), ("t", ["n", "i"])]
X_CMDS = [("x", []), ("x", ["q"]), ("x", ["q1"]), ("x", ["n"]), ("x", ["f"]), ("x", ["i"]), ("x", ["W"]), ("e", []), ("e", ["f"]), ("x", ["q0"]),
          ("x", ["f", "i"]), ("x", ["q1", "i"]), ("x", ["n", "W"]), ("x", ["n", "i"]), ("x", ["f", "W"]), ("x", ["q1", "W"]), ("x", ["f", "v"]),
          ("x", ["q2"]), ("x", ["n", "q"]), ("x", ["i", "W"]), ("x", ["q5"])]
MUST = [("t", []), ("t", ["q"]), ("t", ["q1"]), ("t", ["n"]), ("x", []), ("x", ["q"]), ("x", ["q1"]), ("x", ["n"]), ("x", ["f"]), ("x", ["i"]),
        ("x", ["W"])]


def wild_args(r, ents):
    names = [e.path for e in ents] or [b"a"]
    pats = []
    for _ in range(r.choice([1, 1, 2, 3])):
        nm = r.choice(names)
        kk = r.random()
        if kk < 0.25:
            pats.append(nm)
        elif kk < 0.55:
            pats.append(nm[:r.randrange(len(nm) + 1)] + b"*")
        elif kk < 0.7:
            j = r.randrange(len(nm))
            pats.append(nm[:j] + b"?" + nm[j + 1:])
        elif kk < 0.8:
            pats.append(b"*" + nm[r.randrange(len(nm)):])
        elif kk < 0.9:
            pats.append(r.choice([b"*", b"**", b"?*", b"*/*", b"*.*", b"nomatch"]))
        else:
            pats.append(bytes(r.choice(b"ab*?/.") for _ in range(r.randrange(1, 5))))
    return [p.replace(b"\0", b"") or b"*" for p in pats]


def make_pre(r, ents, wdir):
    """pre-existing objects below the run directory, as (kind, relpath, payload) for the sandbox and the model op"""
    pre = []
    base = (wdir + b"/") if wdir else b""
    if wdir:
        comps = wdir.split(b"/")
        for i in range(1, len(comps) + 1):
            pre.append(("d", b"/".join(comps[:i]), 0o755))
    top_files = [e for e in ents if e.kind == "file" and b"/" not in e.path and e.path not in (b".", b"..")]
    top_dirs = [e for e in ents if e.kind == "dir" and e.path.count(b"/") == 1]
    seen = set()
    for e in r.sample(top_files, min(len(top_files), r.choice([0, 1, 2, 3]))):
        if e.path in seen:
            continue
        seen.add(e.path)
        k = r.random()
        if k < 0.6:
            pre.append(("f", base + e.path, b"OLD-" + e.path[:20]))
        elif k < 0.75:
            pre.append(("d", base + e.path, 0o755))                      # a directory where a file goes
        elif k < 0.9:
            pre.append(("l", base + e.path, b"dangling-" + bytes([r.choice(b"xyz")])))
        else:
            pre.append(("l", base + e.path, b"../outside/canary"))
    if top_dirs and r.random() < 0.3:
        e = r.choice(top_dirs)
        p = e.path.rstrip(b"/")
        if p not in seen and p not in (b".", b".."):
            pre.append(("f", base + p, b"not-a-directory"))             # a file where a directory is needed
    if not wdir and r.random() < 0.1:
        pre = [p for p in pre]
    return pre


ANSWERS = [b"y\n", b"n\n", b"a\n", b"s\n", b"Y\n", b"N\n", b"\n", b"zzz\ny\n", b"A\n", b"S\n", b"yes\n", b"no thanks\n", b" y\n", b"q\nn\n",
           b"\0y\n", b"\0\0s\n", b"\0\n"]


def gen_cases(r):
    cases = []
    archives = []

    def add_archive(ents, tag):
        arch = encode_archive(ents)
        archives.append((ents, arch, tag))

    # 1. trees, every method, links, MacBinary
    for _ in range(int(70 * SCALE)):
        ents = T.rand_tree(r, maxdepth=r.choice([1, 2, 3]), nfiles=r.choice([3, 6, 9]), dangerous=r.choice([0.0, 0.1, 0.2]),
                           safe_links=0.15, levels=r.choice([(2,), (2,), (1,), (0,), (0, 1, 2)]), readonly_dirs=0.2)
        assign_contents(r, ents)
        add_archive(ents, "tree")
    # 2. trees with damaged members
    for _ in range(int(70 * SCALE)):
        ents = T.rand_tree(r, maxdepth=r.choice([1, 2]), nfiles=r.choice([3, 6]), dangerous=0.1, safe_links=0.1,
                           levels=r.choice([(2,), (1,), (0, 1, 2)]), readonly_dirs=0.0)
        assign_contents(r, ents)
        files = [e for e in ents if e.kind == "file" and not hasattr(e, "visible")]
        tags = set()
        for e in r.sample(files, min(len(files), r.choice([1, 1, 2, 3]))):
            tags.add(inject_failure(r, e, e is ents[-1]))
        add_archive(ents, "damaged" + "".join("+" + t for t in sorted(tags)))
    # 3. hostile names
    for _ in range(int(40 * SCALE)):
        ents = hostile_tree(r)
        assign_contents(r, ents)
        if r.random() < 0.3:
            files = [e for e in ents if e.kind == "file" and not hasattr(e, "visible")]
            if files:
                inject_failure(r, r.choice(files), False)
        add_archive(ents, "hostile")
    # 4. progress-bar sizes
    for _ in range(int(10 * SCALE) + 1):
        ents = bar_tree(r)
        for e in ents:
            e.comp = e.data
        add_archive(ents, "bar")
    # 5. special shapes
    def f(path, data=b"data", **kw):
        e = T.Entry("file", path, data=data, perms=kw.pop("perms", 0o100644), mtime=T0, **kw)
        e.comp = data
        return e
    specials = [
        ([f(b"a"), f(b"a/b"), f(b"c")], "file-then-dir"),                   # stat("a/b") -> ENOTDIR -> exit(-1)
        ([f(b"dup"), f(b"dup", b"second"), f(b"dup", b"third")], "duplicates"),
        ([f(b"d1/x"), f(b"d2/x", b"other"), f(b"d3/x", b"third")], "same-basename"),
        ([T.Entry("dir", b"d/", perms=0o40755, mtime=T0), f(b"d"), f(b"z")], "dir-then-file"),
        ([T.Entry("link", b"l", target=b"t"), f(b"l"), f(b"t")], "link-then-file"),
        ([T.Entry("link", b"esc", target=b"../outside"), f(b"esc/canary2"), f(b"z")], "through-dangerous-link"),
        ([T.Entry("link", b"in", target=b"sub"), T.Entry("dir", b"sub/", perms=0o40755, mtime=T0), f(b"in/file"), f(b"z")], "through-safe-link"),
        ([f(b"/abs/name"), f(b"//abs2"), f(b"../up"), f(b"z")], "absolute-and-dotdot"),
        ([f(b"empty", b""), f(b"one", b"1")], "empty-file"),
        ([], "empty-archive"),
        # MacLHA members too short for the 128-byte MacBinary header: the pass-through cannot be set up
        ([mac_short(r, 200, 50), f(b"z")], "mac-short"),
        ([mac_short(r, 128, 127), mac_short(r, 5000, 0), f(b"z")], "mac-short"),
        ([mac_short(r, 100, 100), mac_short(r, 3000, 2500)], "mac-short"),
    ]
    for ents, tag in specials:
        add_archive(ents, tag)
    # parent-directory failures: a symbolic link loop / a dangling link / a file where a parent directory is needed
    forced = {}
    pd = [T.Entry("dir", b"p/sub/", perms=0o40755, mtime=T0), f(b"p/sub/file"), T.Entry("link", b"p/lnk", target=b"t"), f(b"z")]
    add_archive(pd, "parent-loop");     forced["parent-loop"] = [("l", b"p", b"p")]
    add_archive(pd, "parent-dangling"); forced["parent-dangling"] = [("l", b"p", b"nowhere")]
    add_archive(pd, "parent-file");     forced["parent-file"] = [("f", b"p", b"plain file")]
    # deferred links are created longest path first: a/llll -> ../x is in place when p/q/m (p -> a/llll) has its turn;
    # no parent directory may then be looked up or created through p
    dl = [T.Entry("dir", b"a/d/", perms=0o40755, mtime=T0), T.Entry("link", b"a/llll", target=b"../x"), T.Entry("link", b"a/llll", target=b"d"),
          T.Entry("link", b"p", target=b"a/llll"), T.Entry("link", b"p/q/m", target=b"../../../zz"), f(b"z")]
    add_archive(dl, "deferred-parents");   forced["deferred-parents"] = []
    add_archive(dl, "deferred-parents-x"); forced["deferred-parents-x"] = [("d", b"x", 0o755)]
    # names longer than NAME_MAX / PATH_MAX: only tested (`t`), the file-system model has no ENAMETOOLONG
    for _ in range(int(6 * SCALE) + 1):
        ents = []
        for i in range(r.choice([1, 2, 3])):
            nm = bytes(r.choice(HOSTILE + [0x61, 0x62]) for _ in range(r.choice([256, 300, 1000, 4200]))).replace(b"/", b"_").replace(b"\xff", b"_")
            d = r.choice([b"", b"d/", nm[:300] + b"/"])
            ents.append(f(d + b"%d" % i + nm, bytes(r.randrange(256) for _ in range(r.choice([0, 10, 3000])))))
        add_archive(ents, "longname")
    # garbage and a damaged second header
    for _ in range(int(6 * SCALE) + 1):
        ents = T.rand_tree(r, maxdepth=1, nfiles=4, methods=(b"-lh0-",))
        for e in ents:
            e.comp = e.data
        parts = [encode_member(e) for e in ents]
        if len(parts) >= 2:
            j = r.randrange(1, len(parts))
            p = bytearray(parts[j])
            p[r.randrange(min(len(p), 24))] ^= 0xff
            parts[j] = bytes(p)
        archives.append((ents, b"".join(parts) + b"\0", "damaged-header"))
    archives.append(([], bytes(r.randrange(256) for _ in range(300)), "garbage"))

    for ents, arch, tag in archives:
        cmds = list(MUST) if tag in ("tree", "hostile") and r.random() < 0.15 else []
        nt, nx = (2, 4) if len(arch) < 150000 else (1, 2)
        if tag == "longname":
            nt, nx = 5, 0
        cmds += r.sample(T_CMDS, nt) + r.sample(X_CMDS, nx)
        if tag not in ("tree", "hostile", "bar", "longname") and not tag.startswith("damaged"):
            cmds += [("t", []), ("x", []), ("x", ["f"]), ("x", ["n"]), ("x", ["q1"]), ("x", ["q"])]
        for cmd, opts in cmds:
            c = MCase()
            c.ents, c.archive, c.tag, c.cmd = ents, arch, tag, cmd
            wdir = None
            toks = []
            for o in opts:
                if o == "W":
                    wdir = r.choice([b"sub", b"sub/deeper", b"x.d", b"out dir"])
                else:
                    toks.append(o)
            r.shuffle(toks)
            # a bare `q` must not be followed by an option starting with a digit: none does
            if wdir is not None:
                toks.append("w" + wdir.hex())
            c.opts = toks
            c.filters = wild_args(r, ents) if r.random() < 0.3 else []
            c.pre, c.answers = [], b""
            if cmd in ("x", "e"):
                if tag in forced:
                    c.pre = list(forced[tag]) if wdir is None else []
                elif r.random() < 0.45:
                    c.pre = make_pre(r, ents, wdir if r.random() < 0.7 else None)
                n_ans = r.choice([0, 1, 2, 4, 8]) if not c.pre or r.random() < 0.3 else len(c.pre) + r.choice([0, 1, 3])
                c.answers = b"".join(r.choice(ANSWERS) for _ in range(n_ans))
                if r.random() < 0.05 and c.answers:
                    c.answers = c.answers[:-1]          # the last line lacks its newline
            cases.append(c)
    return cases


def model_line(c):
    optstr = ",".join(c.opts) or "-"
    fl = ",".join((f.hex() if f else "00") for f in c.filters) if c.filters else "-"
    if c.cmd == "t":
        return "msgt %s %s %s" % (optstr, fl, hx(c.archive))
    pre_m = ",".join(("d:%s:%o" % (hx(p), pl)) if k == "d" else "%s:%s:%s" % (k, hx(p), hx(pl)) for k, p, pl in c.pre) or "-"
    return "msgx %s 1 %s %s %s %s" % (optstr, hx(c.answers), pre_m, fl, hx(c.archive))


def command_text(c):
    arg = c.cmd
    for t in c.opts:
        arg += ("w=" + bytes.fromhex(t[1:]).decode("latin1")) if t.startswith("w") else t
    return "TZ=UTC lha %r ../a.lzh %s" % (arg, " ".join(repr(f) for f in c.filters))


def show_bytes(label, b, limit=1200):
    print("  %s (%d bytes):" % (label, len(b)))
    shown = b[:limit]
    for ln in re.split(rb"(?<=\n)", shown):
        if ln:
            print("    %r" % ln)
    if len(b) > limit:
        print("    ... %d more bytes" % (len(b) - limit))


def main():
    seed = int(os.environ.get("VERIF_SEED", "1") or 1) * 1000 + int(os.environ.get("DIFFTEST_SEED_OFFSET", "0") or 0)
    ctx = core.Ctx("difftest_msgs", "tool", seed)
    r = ctx.rng
    try:
        ok, log = core.lake_build(["lhv"])
        if not ok:
            print(log[-3000:])
            print("difftest_msgs: lake build failed")
            return 2
        lhv = core.lhv_path()
        lha, err = core.build_lha(ctx, sanitize=True)
        if lha is None:
            print(err)
            print("difftest_msgs: building lha failed")
            return 2
        if os.geteuid() != 0:
            print("difftest_msgs: must run as root (the tool is run as root)")
            return 2
        fill_pool(r, lhv)
        print("content pool: " + " ".join("%s=%d" % (m, len(v)) for m, v in sorted(POOL.items())))
        cases = gen_cases(r)

        def run_c(c):
            c.res = SB.run_extract(lha, ctx.tmp, c.archive, c.opts, pre=c.pre, answers=c.answers, as_root=True, cmd=c.cmd,
                                   extra_args=list(c.filters))
        with ThreadPoolExecutor(core.JOBS) as ex:
            list(ex.map(run_c, cases))
        outs, crashes = core.run_lines_parallel([lhv], [model_line(c) for c in cases])

        mismatches = []
        stats = {}
        byte_total, bar_o, rc_hist, cmd_hist = 0, 0, {}, {}
        known_dev = known_tsl = 0
        phrases = [b"- Tested  ", b"- CRC error  ", b"- Melted  ", b"- Failure  ", b"Symbolic Link ", b" : Skipped...", b"EXTRACT ", b"VERIFY ",
                   b" but file is exist.", b" (directory)", b" :\r", b"?"]
        ephrases = ["OverWrite ?", "Failed to create parent directory", "is not a directory!", "Failed to stat", "Failed to read file type"]
        seen = {p: 0 for p in phrases}
        eseen = {p: 0 for p in ephrases}
        for c, mo in zip(cases, outs):
            c.model = mo
            res = c.res
            so = res["stdout"]
            byte_total += len(so)
            bar_o += so.count(b"o")
            for p in phrases:
                seen[p] += so.count(p)
            for p in ephrases:
                eseen[p] += res["stderr"].count(p)
            rc_hist[res["rc"]] = rc_hist.get(res["rc"], 0) + 1
            key = c.cmd + "".join(("w=" if t.startswith("w") else t) for t in c.opts)
            cmd_hist[key] = cmd_hist.get(key, 0) + 1
            stats[c.tag.split("+")[0]] = stats.get(c.tag.split("+")[0], 0) + 1
            m = re.match(r"rc=(\d+) stdout=(\S+) stderr=(\S+)(?: agree=(\d) fs=(\S*))?( FAULT)?$", mo)
            kinds = []
            if res["verdict"] != "ok":
                kinds.append("crash")
            if m is None:
                kinds.append("model-output")
            else:
                if m.group(2) != hx(so):
                    kinds.append("stdout")
                if int(m.group(1)) != res["rc"]:
                    kinds.append("rc")
                if m.group(3) != hx(res["stderr"].encode("latin1", "replace")):
                    kinds.append("stderr")
                if c.cmd != "t":
                    if m.group(5) != res["listing"]:
                        kinds.append("tree")
                    if m.group(4) != "1":
                        # Extract.readAnswer (the older model) takes the first byte of a line even if it is NUL and accepts a
                        # last line without newline; prompt_user does neither.  Messages.readLine follows the C; on such
                        # answers the two models are expected to differ and only the comparison with the real tool counts.
                        if m.group(4) == "2":
                            known_tsl += 1       # a file / link member whose path ends in '/': Fs has no trailing-slash rule
                        elif b"\0" in c.answers or (c.answers and not c.answers.endswith(b"\n")):
                            known_dev += 1
                        else:
                            kinds.append("agree")
                if m.group(6):
                    kinds.append("model-fault")
            if kinds:
                mismatches.append((kinds, c, m))
        print("archives by kind: " + " ".join("%s=%d" % kv for kv in sorted(stats.items())))
        print("commands: " + " ".join("%s=%d" % kv for kv in sorted(cmd_hist.items())))
        print("real tool: %d stdout bytes compared, %d 'o' marks, exit statuses %s" %
              (byte_total, bar_o, " ".join("%d:%d" % kv for kv in sorted(rc_hist.items()))))
        print("real stdout phrases: " + "  ".join("%r=%d" % (p.decode(), n) for p, n in seen.items()))
        print("real stderr phrases: " + "  ".join("%r=%d" % kv for kv in eseen.items()))
        print("Messages vs Extract.run on answers with NUL bytes / an unterminated last line (expected to differ): %d" % known_dev)
        print("Messages vs Extract.run on non-directory members whose path ends in '/' (expected to differ): %d" % known_tsl)
        print("difftest_msgs: %d cases, %d mismatches" % (len(cases), len(mismatches)))
        for kinds, c, m in mismatches[:6]:
            res = c.res
            print("-" * 100)
            print("MISMATCH %s [%s] cmd=%s opts=%s filters=%r" % ("+".join(kinds), c.tag, c.cmd, ",".join(c.opts) or "-", c.filters))
            print("  command : %s   (cwd = sandbox/root, as root)" % command_text(c))
            print("  members : %s" % core.short(repr(c.ents), 700))
            print("  pre     : %r" % (c.pre,))
            print("  answers : %r" % c.answers)
            print("  archive : %s" % core.short(hx(c.archive), 3000))
            print("  real rc=%d verdict=%s   model rc=%s" % (res["rc"], res["verdict"], m.group(1) if m else "?"))
            show_bytes("real stdout", res["stdout"])
            if m:
                try:
                    show_bytes("model stdout", bytes.fromhex(m.group(2)) if m.group(2) != "-" else b"")
                except ValueError:
                    print("  model stdout: %s" % core.short(m.group(2), 300))
                if "stderr" in kinds:
                    show_bytes("real stderr", res["stderr"].encode("latin1", "replace"))
                    show_bytes("model stderr", bytes.fromhex(m.group(3)) if m.group(3) != "-" else b"")
                if "tree" in kinds:
                    print("  real tree : %s" % core.short(res["listing"], 1500))
                    print("  model tree: %s" % core.short(m.group(5), 1500))
                if "agree" in kinds:
                    print("  the Messages loop and Extract.run disagree (result flag / abort flag / tree)")
            else:
                print("  model line: %s" % core.short(c.model, 400))
            print("  replay  : echo '%s' | lean/.lake/build/bin/lhv" % core.short(model_line(c), 300))
        return 1 if mismatches else 0
    finally:
        ctx.cleanup()


if __name__ == "__main__":
    sys.exit(main())
