#!/bin/bash
# run_all.sh [tier]: every registered check on the current (clean) tree, in sequence; refreshes evidence/*.json
cd "$(dirname "$0")/.."
tier="${1:-quick}"
R="${LHASA_REPO:-/repo}"
git -C "$R" status --porcelain --untracked-files=no | grep -q . && { echo "$R has tracked changes"; exit 2; }
for p in $(python3 -c "import json;print(' '.join(c['property_id'] for c in json.load(open('MANIFEST.json'))['checks']))"); do
  s=$(date +%s)
  python3 check.py $p --tier $tier > /tmp/runall-$p.log 2>&1; rc=$?
  echo "$p rc=$rc $(( $(date +%s) - s ))s $(tail -1 /tmp/runall-$p.log)"
done
