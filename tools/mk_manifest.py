#!/usr/bin/env python3
"""Regenerate MANIFEST.json from the props/ modules (keeps it valid at all times)."""
import os, sys, json, importlib
VERIF = os.path.dirname(os.path.dirname(os.path.abspath(__file__)))
sys.path.insert(0, VERIF)
props = json.loads("[" + ",".join(l for l in open(os.path.join(VERIF, "properties.jsonl")) if l.strip()) + "]")
ids = [p["id"] for p in props]
checks, na = [], []
NA_REASONS = json.load(open(os.path.join(VERIF, "tools", "not_applicable.json")))
for pid in ids:
    path = os.path.join(VERIF, "props", pid + ".py")
    if not os.path.exists(path) or pid in NA_REASONS:
        na.append({"property_id": pid, "reason": NA_REASONS.get(pid, "check not built yet (work in progress; see DESIGN.md section 5)")})
        continue
    P = importlib.import_module("props." + pid)
    checks.append({
        "property_id": pid,
        "quick_cmd": "python3 check.py %s --tier quick" % pid,
        "thorough_cmd": "python3 check.py %s --tier thorough" % pid,
        "evidence_file": "/verif/evidence/%s.json" % pid,
        "replay_cmd_template": "python3 check.py %s --replay {path}" % pid,
        "engine": "lean-proof+correspondence",
        "level_claimed": {"category": "proof", "text": P.LEVEL_TEXT, "design_ref": "DESIGN.md section 5, " + pid},
        "level_note": P.LEVEL_NOTE,
        "technique": P.TECHNIQUE,
    })
man = {
    "version": 1,
    "setup_cmd": "cd /verif/lean && lake build",
    "hooks": {"guard": "LHASA_VERIF", "enable": "none needed: statics are reached by #include of lib/*.c in harness translation units, libc by link-time --wrap; the repository sources are compiled unmodified",
              "baseline_off_cmd": "cd /repo && make check", "source_commits": [], "add_only": True},
    "engines": [{"name": "lean-proof+correspondence", "path": "/verif/check.py",
                 "serves_properties": [c["property_id"] for c in checks],
                 "kind_free_text": "Lean 4 theorems about hand-written executable models (lean/LhasaV), data regenerated from the C source on every run (gen/), differential correspondence between the compiled model driver lhv and a sanitizer-built C harness (harness/)"}],
    "checks": checks,
    "not_applicable": na,
    "notes": "See DESIGN.md. Every check regenerates lean/LhasaV/Gen from /repo, rebuilds and audits the theorems (#print axioms, no sorry), rebuilds the C harness from /repo's working tree in a temp dir and runs the correspondence.",
}
json.dump(man, open(os.path.join(VERIF, "MANIFEST.json"), "w"), indent=1)
print("checks:", [c["property_id"] for c in checks], "na:", [n["property_id"] for n in na])
