#!/bin/bash
# try_seed.sh <seed-id> [tier]: apply the seeded patch to /repo, run that property's check, undo.
id="$1"; prop="${id%%-*}"; tier="${2:-quick}"
cd /repo && git apply "/verif/seeded/$id/patch.diff" || exit 2
cd /verif && python3 check.py "$prop" --tier "$tier" > "/tmp/try-$id.log" 2>&1; rc=$?
git -C /repo checkout -- .
tail -4 "/tmp/try-$id.log"
echo "try_seed $id rc=$rc"
