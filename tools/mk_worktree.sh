#!/bin/sh
# mk_worktree.sh <dir>: scratch git worktree of /repo with the (untracked) autotools build files copied and built.
set -e
d="$1"
git -C /repo worktree add --detach "$d" HEAD >/dev/null 2>&1
cd /repo
cp -a configure aclocal.m4 autotools config.hin INSTALL "$d/" 2>/dev/null || true
find . -name Makefile.in -not -path "./.git/*" | while read f; do mkdir -p "$d/$(dirname $f)"; cp -a "$f" "$d/$f"; done
cd "$d"
sleep 1; touch aclocal.m4; sleep 1; touch configure config.hin; sleep 1; find . -name Makefile.in | xargs touch
./configure -q >/dev/null 2>&1 && make -j16 >/dev/null 2>&1 && echo "built $d"
