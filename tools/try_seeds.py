#!/usr/bin/env python3
"""try_seeds.py [--tier quick] [--prop Cnn] <seed-id>...: apply each seeded patch to /repo, run the property's check, undo,
record the outcome in seeded/<id>/meta.json (detected_by)."""
import sys, os, json, subprocess, re, glob
VERIF = os.path.dirname(os.path.dirname(os.path.abspath(__file__)))
args = sys.argv[1:]
tier = "quick"
propo = None
while args and args[0].startswith("--"):
    if args[0] == "--tier": tier = args[1]; args = args[2:]
    elif args[0] == "--prop": propo = args[1]; args = args[2:]
ids = args or sorted(os.path.basename(os.path.dirname(p)) for p in glob.glob(VERIF + "/seeded/*/patch.diff"))
for sid in ids:
    d = os.path.join(VERIF, "seeded", sid)
    prop = propo or sid.split("-")[0]
    if not os.path.exists(os.path.join(VERIF, "props", prop + ".py")):
        print(sid, "no check for", prop); continue
    assert subprocess.run(["git", "-C", "/repo", "status", "--porcelain", "--untracked-files=no"], capture_output=True, text=True).stdout.strip() == "", "/repo has tracked changes"
    r = subprocess.run(["git", "-C", "/repo", "apply", os.path.join(d, "patch.diff")])
    if r.returncode != 0:
        print(sid, "patch does not apply"); continue
    try:
        e = dict(os.environ); e["VERIF_EVIDENCE_DIR"] = "/tmp/seed-evidence"
        r = subprocess.run(["python3", "check.py", prop, "--tier", tier], cwd=VERIF, capture_output=True, text=True, env=e)
    finally:
        subprocess.run(["git", "-C", "/repo", "checkout", "--", "."])
    out = r.stdout
    v = [l for l in out.split("\n") if l.startswith("VIOLATION")]
    kind = "missed"
    if v:
        kind = "no-failing-input-found" if "no-failing-input-found" in v[0] else "concrete-replay"
    meta_p = os.path.join(d, "meta.json")
    meta = json.load(open(meta_p))
    det = meta.get("detected_by") or {}
    if not isinstance(det, dict): det = {}
    tie = [l for l in out.split("\n") if l.startswith(("[tie]", "[search]", "[lean]", "[gen]"))]
    det["%s/%s" % (prop, tier)] = {"result": kind, "rc": r.returncode, "verdict": v[0] if v else "OK (not detected)", "log": tie[-4:]}
    meta["detected_by"] = det
    if not os.environ.get("TRY_NOREC"):          # TRY_NOREC=1: robustness runs at other VERIF_SEED values are only printed
        json.dump(meta, open(meta_p, "w"), indent=1)
    print(sid, prop, tier, "->", kind)
subprocess.run(["python3", os.path.join(VERIF, "gen", "extract.py")], capture_output=True)
