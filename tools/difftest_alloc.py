#!/usr/bin/env python3
"""Differential test of the allocation-aware reader model (property C20, second half).

    C     : /repo/lib through the harness `vh` (op `rdr <kind> <policy> <fail-at> <ops> <hex>`): the wrapped allocator
            of harness/ops_reader.c makes allocation number <fail-at> return NULL, under ASan + UBSan
    model : LhasaV.Model.ReaderAlloc through `lhva`, the same line

For every generated (archive, legal history, k):
    model line up to ` live=`  ==  canon_rdr(C line)          per-call results and live blocks after free, token for token
    model allocs               ==  C allocs                    the allocator was called equally often (k >= 0: up to the end)
    model fired                ==  (k < C allocs)              the injected failure happened in both or in neither
and, on the C alone: live == 0, no sanitizer report, no OVERREAD, and the call during which the allocation failed (its
index is taken from the model's log) returned a failure value: new-failed / END or a re-presented entry / 0 bytes /
c0 / x0 (a failure here is a genuine defect of the library).

The generators are those of props/C20.py (corpus / mutated / structured / short-MacBinary archives, legal histories with
frequent extraction, four stream kinds, three directory policies).  Output: number of cases, how many injected failures
fired, distribution of the allocation site that failed (from the model's ghost log), every mismatch.
The library is built from LHASA_REPO (default /repo); the working tree is used as it is (checks rebuild from the current tree); the run is invalid only if it changes during the run.  Seed: VERIF_SEED (default 1);  size: DIFFTEST_ALLOC_N (archive, history) pairs (default 200), DIFFTEST_ALLOC_K failure
positions per history (default 16, chosen among the allocations of the history's fault-free run, plus two beyond its end).  Exit status 1 on mismatch.
"""
import os, sys, time, re
from collections import Counter

sys.path.insert(0, os.path.dirname(os.path.dirname(os.path.abspath(__file__))))
from vlib import core, archgen as A
from props import C20


def repo_state():
    """(HEAD, dirty?) of the repository the harness is built from"""
    import subprocess
    head = subprocess.run(["git", "-C", core.REPO, "log", "--oneline", "-1"], capture_output=True, text=True).stdout.strip()
    dirty = subprocess.run(["git", "-C", core.REPO, "status", "--porcelain", "--untracked-files=no"],
                           capture_output=True, text=True).stdout.strip()
    return head, dirty


def reported(c_out, call):
    """how the C call with index `call` (from the model's log) reported the failure: 'new-failed', 'END', 're-presented',
    '0 bytes', 'c0', 'x0' – None if it returned a success value"""
    if call == "new":
        return "new-failed" if c_out.startswith("new-failed") else None
    toks = c_out.split(" live=")[0].split(";")
    t = toks[int(call)]
    if t == "END":
        return "END"
    if t.startswith("H1:"):
        return "re-presented"
    if t == "-":
        return "0 bytes"
    if t in ("c0", "x0"):
        return t
    return None


def lhva_path():
    return os.path.join(core.LEAN, ".lake", "build", "bin", "lhva")


def gen_histories(ctx, narch):
    """(stream kind, policy, tokens, archive bytes, archive kind) – archives and histories exactly as props/C20.gen_cases
    draws them, cut at a random prefix"""
    r = ctx.rng
    smalls = A.small_archives(30000)
    out = []
    for i in range(narch):
        name, d = r.choice(C20.pick_archives(r, smalls))
        k = r.random()
        kind = "corpus"
        if k < 0.25:
            d = A.mutate_archive(r, d); kind = "mutated"
        elif k < 0.35:
            d = A.structured_archive(r); kind = "structured"
        elif k < 0.45:
            d = A.mac_many(r); kind = "mac-short"
        toks = A.legal_history(r, maxentries=8, extract_fail=0.15)
        toks = [("x1" if (t == "c" and r.random() < 0.5) else t) for t in toks]
        skind, pol = r.choice(A.KINDS), r.choice(A.POLICIES)
        cut = r.choice([len(toks), len(toks), r.randrange(1, len(toks) + 1)])      # histories cut at a prefix
        out.append((skind, pol, toks[:cut], d, kind))
    return out


def pick_ks(r, nallocs, per_history):
    """failure positions for a history whose fault-free run makes `nallocs` allocator calls: all of them when there are
    few, otherwise the three constructors, a random sample, and two positions beyond the end (the failure never fires)"""
    if nallocs <= per_history:
        ks = set(range(nallocs))
    else:
        ks = set(r.sample(range(nallocs), per_history)) | {r.randrange(3)}
    return sorted(ks | {nallocs, nallocs + r.randrange(1, 50)})


def main():
    seed = int(os.environ.get("VERIF_SEED", "1"))
    narch = int(int(os.environ.get("DIFFTEST_ALLOC_N", "200")) * float(os.environ.get("DIFFTEST_SCALE", "1.0")))
    per_history = int(os.environ.get("DIFFTEST_ALLOC_K", "16"))
    t0 = time.time()
    ctx = core.Ctx("C20", "quick", seed)
    mism, defects = [], []
    head0, dirty0 = repo_state()
    print("repository: %s  HEAD %s%s" % (core.REPO, head0, "  (working tree DIRTY: %s)" % dirty0.replace("\n", "; ") if dirty0 else ""))
    try:
        ok, log = core.lake_build(["lhva", "lhv"])
        if not ok:
            print(log[-3000:]); raise SystemExit("lake build lhva failed")
        vh, log = core.build_vh(ctx, ["reader"])
        if vh is None:
            print(log); raise SystemExit("harness build failed")
        hist = gen_histories(ctx, narch)
        ff_ops = [A.rdr_op(sk, pol, toks, d) for (sk, pol, toks, d, kind) in hist]
        ff_out, _ = core.run_lines_parallel([vh, "30"], ff_ops, jobs=min(8, core.JOBS))
        cases = []
        for (sk, pol, toks, d, kind), op, co in zip(hist, ff_ops, ff_out):
            cases.append((op, -1, kind))
            n = A.rdr_counters(co).get("allocs")
            if n is None:
                continue            # the fault-free run itself ended abnormally: reported below through the k = -1 case
            for kk in pick_ks(ctx.rng, n, per_history):
                cases.append((A.rdr_op(sk, pol, toks, d, fail_at=kk), kk, kind))
        ops = [c[0] for c in cases]
        print("generated %d cases from %d (archive, history) pairs (seed %d)" % (len(cases), narch, seed), flush=True)
        c_out, crashes = core.run_lines_parallel([vh, "30"], ops, jobs=min(8, core.JOBS))
        crash_log = {i: se for (i, what, se) in crashes}
        print("C side done (%.0fs), %d abnormal terminations" % (time.time() - t0, len(crashes)), flush=True)
        m_out, mcr = core.run_lines_parallel([lhva_path()], ops, jobs=min(8, core.JOBS))
        print("model side done (%.0fs)" % (time.time() - t0), flush=True)

        fired = 0
        injected = 0
        sites = Counter()
        reports = Counter()
        kinds = Counter()
        results = Counter()
        for i, ((op, k, kind), co, mo) in enumerate(zip(cases, c_out, m_out)):
            kinds[kind] += 1
            why = C20.judge(co)
            if why is not None:
                defects.append((op, k, co, why, crash_log.get(i, "")))
                continue
            m = re.match(r"^(.*? live=\d+)((?: FAULT .*?)?) allocs=(\d+) fired=(\d) sites=(\S+) call=(\S+)$", mo)
            if m is None:
                mism.append((op, k, co, mo, "model line not understood"))
                continue
            m_canon, m_fault, m_allocs, m_fired, m_sites, m_call = m.group(1), m.group(2), int(m.group(3)), int(m.group(4)), m.group(5), m.group(6)
            cnt = A.rdr_counters(co)
            c_fired = 1 if (k >= 0 and k < cnt["allocs"]) else 0
            problems = []
            if m_fault:
                problems.append("model reports" + m_fault)
            if m_canon != A.canon_rdr(co):
                problems.append("results / live count differ")
            if m_allocs != cnt["allocs"]:
                problems.append("allocation counts differ: C %d, model %d" % (cnt["allocs"], m_allocs))
            if m_fired != c_fired:
                problems.append("fired differs: C %d, model %d" % (c_fired, m_fired))
            if problems:
                mism.append((op, k, co, mo, "; ".join(problems)))
            if k >= 0:
                injected += 1
                if c_fired:
                    fired += 1
                    for s in m_sites.split(","):
                        sites[s] += 1
                    # the property on the C alone: the call during which the allocation failed reports failure
                    how = reported(co, m_call)
                    if how is None:
                        defects.append((op, k, co, "the call during which the allocation failed (call %s, site %s) did not "
                                        "report failure / end-of-archive" % (m_call, m_sites), ""))
                    else:
                        reports[(m_sites, how)] += 1
                    # how the call in which the failure fell answered (first token that differs from the fault-free run is
                    # not needed here: the distribution is over sites)
            results["new-failed" if co.startswith("new-failed") else "ran"] += 1
    finally:
        ctx.cleanup()

    head1, dirty1 = repo_state()
    if dirty0 != dirty1 or head0 != head1:
        print("INVALID RUN: the repository changed during the run (start: %s %r, end: %s %r)" % (head0, dirty0, head1, dirty1))
        return 2
    print("difftest_alloc: %d cases (%d fault-free, %d with an injected failure), %d injected failures fired, "
          "%d mismatches, %d C defects  (seed %d, %.0fs)" % (
              len(cases), len(cases) - injected, injected, fired, len(mism), len(defects), seed, time.time() - t0))
    print("archive kinds: " + ", ".join("%s=%d" % kv for kv in sorted(kinds.items())))
    print("allocation site that failed (model's log), of %d fired:" % fired)
    for s, n in sites.most_common():
        print("  %-14s %5d   reported by the C as: %s" % (s, n, ", ".join(
            "%s=%d" % (h, c) for (ss, h), c in sorted(reports.items()) if ss == s)))
    shown = Counter()
    for op, k, co, mo, why in mism:
        shown[why.split(":")[0]] += 1
        if shown[why.split(":")[0]] > 6:
            continue
        print("MISMATCH k=%d: %s" % (k, why))
        print("   op:    " + (op if len(op) < 1500 else core.short(op, 1500)))
        print("   C:     " + core.short(co, 600))
        print("   model: " + core.short(mo, 600))
    if mism:
        print("mismatch classes: " + ", ".join("%s=%d" % kv for kv in shown.most_common()))
    for op, k, co, why, se in defects[:20]:
        print("C DEFECT k=%d: %s" % (k, why))
        print("   op: " + op)
        print("   C:  " + core.short(co, 400))
        if se:
            print("   sanitizer: " + se[-1500:])
    # the same in the block format vlib/dtwrap.py reads (a line starting "C:" marks a failure of the implementation itself)
    print()
    for op, k, co, why, se in defects[:8]:
        print("MISMATCH alloc-defect k=%d %s" % (k, core.short(op, 3000)))
        print("   - C: " + why + " -> " + core.short(co, 300))
        print()
    for op, k, co, mo, why in mism[:8]:
        print("MISMATCH alloc-model k=%d %s" % (k, core.short(op, 3000)))
        print("   - model vs implementation: " + why)
        print()
    print("difftest_alloc: %d cases, %d mismatches" % (len(cases), len(mism) + len(defects)))
    return 1 if (mism or defects) else 0


if __name__ == "__main__":
    sys.exit(main())
