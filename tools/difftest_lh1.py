#!/usr/bin/env python3
"""Three-way differential test of the -lh1- format specification (property C02).

    spec  : LhasaV.Spec.Lzhuf  (transcription of LZHUF.C: encode / decode / expandWin), ops lh1ser lh1exp lh1dec lh1info
    C     : /repo/lib/lh1_decoder.c through the harness `vh`, op `dec lh1 ...`
    model : LhasaV.Model.Lh1 through `lhv`, same op

For every generated command sequence:  stream := lh1ser(cmds);  expected := lh1exp(cmds)
    C(stream, declared len, schedule, chunking)   == expected[:declared len]
    model(same op)                                == expected[:declared len]      (short sequences only: the model is slow)
    lh1dec(declared len, stream)                  == expected[:declared len]
    tree of the model after every command         == mirror image (i <-> 626 - i) of the LZHUF arrays freq/son/prnt of
                                                     `run` (op lh1mirror; all sequences, the tree part of the model is fast)
(when the declared length exceeds the full expansion the implementations may decode the zero padding into a few more
bytes: then only the first len(expected) bytes are compared.)

Corpus oracle: every real -lh1- member of /repo/test/archives decodes under the SPEC decoder to its recorded length
and CRC-16, the C decoder gives the same bytes, and the spec ENCODER reproduces the member's compressed bytes exactly
from the decoded commands (so the padding convention of `encode` is LHarc's).

Seed: VERIF_SEED (default 1).  Output: `difftest_lh1: <n> cases, <k> mismatches`; exit status 1 on mismatch.
"""
import os, sys, time, random

sys.path.insert(0, os.path.dirname(os.path.dirname(os.path.abspath(__file__))))
from vlib import core, corpus, lhaenc, streams as S

NSYM = 314
MODEL_BUDGET = 200_000          # bytes of output decoded by the (slow) Lean model per run


class Case:
    def __init__(self, name, cmds, family, long=False, want_model=False, pad=0, expect=None):
        self.name, self.cmds, self.family, self.long = name, cmds, family, long
        self.want_model = want_model
        self.pad = pad              # zero bytes appended to the stream
        self.expect = expect or {}  # requirements on lh1info (coverage assertions)


def sym_item(r, sym, pos=None):
    return "S%d.%d" % (sym, r.randrange(4096) if pos is None else pos)


def rand_cmd(r, outlen):
    k = r.random()
    if k < 0.45:
        return "L%02x" % r.choice([0, 0x20, 0x41, 0xff, r.randrange(256)]), 1
    ln = r.choice([3, 4, 59, 60, r.randrange(3, 61)])
    kk = r.random()
    if kk < 0.2:
        d = r.randrange(4096)
    elif kk < 0.4:
        d = r.randrange(0, 4)                              # self-overlapping
    elif kk < 0.55:
        d = r.choice([4095, 4094, 4032, 4031, 64, 63])     # far end of the window / class borders
    elif kk < 0.75:
        d = 64 * r.randrange(64) + r.choice([0, 63, r.randrange(64)])
    elif kk < 0.9:
        d = min(4095, outlen + r.randrange(0, 5))          # reaches before the start of the output
    else:
        d = max(0, min(4095, outlen - 1 - r.randrange(0, 3)))
    return "C%d.%d" % (d, ln), ln


def gen_cases(r):
    cs = []
    # A: short random command lists
    for i in range(160):
        n = r.choice([0, 1, 1, 2, 3, 5, 9, 20, 50, 120, 400])
        items, outlen = [], 0
        for _ in range(n):
            it, k = rand_cmd(r, outlen)
            items.append(it); outlen += k
        cs.append(Case("rand-%d" % i, ",".join(items) or "-", "short-random", want_model=True,
                       pad=r.choice([0, 0, 0, 1, 2, 5])))
    # A2: a TIE at the top of the adaptive tree: one symbol as heavy as all the others together (its leaf is a child of the root and
    # has the same frequency as the root's other child), then that symbol again, then any other - and the same again and again
    for i in range(12):
        a_sym = r.choice([0x00, 0x20, 0x41, 0xff, r.randrange(256)])
        a = r.choice([330, 400, 520, 700])
        b = a - 312
        others = [x for x in range(256) if x != a_sym]
        items = ["L%02x" % a_sym] * a
        for _ in range(b):
            items.append("L%02x" % r.choice(others) if r.random() < 0.8 else "C%d.%d" % (r.randrange(64), r.randrange(3, 61)))
        for _ in range(r.choice([1, 5, 60])):
            items.append("L%02x" % a_sym)
            items.append("L%02x" % r.choice(others) if r.random() < 0.8 else "C%d.%d" % (r.randrange(64), r.randrange(3, 61)))
        for _ in range(r.choice([0, 30])):
            it, k = rand_cmd(r, 5000)
            items.append(it)
        cs.append(Case("roottie-%d" % i, ",".join(items), "root-tie", want_model=True))
    # B: last command = copy in each of the 64 upper-distance classes, after 0..7 literals (all byte alignments
    #    of the final position code: the decoder peeks 8 bits there)
    for u in range(64):
        for lits in range(8):
            items = ["L%02x" % r.randrange(256) for _ in range(lits)]
            items.append("C%d.%d" % (u * 64 + r.choice([0, 63, r.randrange(64)]), r.choice([3, 60, r.randrange(3, 61)])))
            cs.append(Case("class-%d-%d" % (u, lits), ",".join(items), "upper-class", want_model=(lits in (0, 5))))
    for j in range(64):      # 3-bit position code (class 0) as the very last thing, many alignments
        items = ["L%02x" % r.randrange(256) for _ in range(8 + j // 2)]
        items.append("C%d.%d" % (r.randrange(64), r.randrange(3, 61)))
        cs.append(Case("class-0-tail-%d" % j, ",".join(items), "upper-class", want_model=(j % 8 == 0)))
    allc = ["C%d.%d" % (u * 64 + r.randrange(64), r.randrange(3, 61)) for u in range(64)]
    r.shuffle(allc)
    cs.append(Case("class-all", ",".join(allc), "upper-class", want_model=True, expect={"valid": 1}))
    # C: round robin over k symbols, k = 2..314
    for k in range(2, NSYM + 1):
        count = r.choice([2 * k + 1, 5 * k, k * k if k < 40 else 3 * k + 2, r.randrange(1000, 3000)])
        cs.append(Case("rr-%d" % k, "Q%d.%d.%d" % (k, count, r.randrange(NSYM)), "round-robin", want_model=(k % 37 == 3 and count < 1500)))
    # D: all 314 symbols (every literal, every copy length), in order and shuffled, once to three times
    cs.append(Case("all-inorder", "Q314.314.0", "all-symbols", want_model=True))
    cs.append(Case("all-twice", "Q314.628.7", "all-symbols", want_model=True))
    for i in range(6):
        items = []
        for _ in range(r.choice([1, 2, 3])):
            p = list(range(NSYM)); r.shuffle(p)
            items += [sym_item(r, s) for s in p]
        cs.append(Case("all-shuffled-%d" % i, ",".join(items), "all-symbols", want_model=(i < 2)))
    # E: tie patterns
    for i in range(12):
        k = r.choice([2, 3, 4, 7, 8, 16, 31, 32, 33, 64, 100, 157, 313, 314])
        syms = r.sample(range(NSYM), k)
        items = []
        kind = i % 4
        if kind == 0:            # every symbol m times, then one more round in reverse order
            m = r.randrange(1, 6)
            for _ in range(m):
                items += [sym_item(r, s) for s in syms]
            items += [sym_item(r, s) for s in reversed(syms)]
        elif kind == 1:          # staircase: the j-th symbol j times (all frequencies distinct, then ties with branch nodes)
            for j, s in enumerate(syms[:40]):
                items += [sym_item(r, s)] * (j + 1)
            items += [sym_item(r, s) for s in syms[:40]]
        elif kind == 2:          # powers of two: ties between leaves and branch nodes
            for j, s in enumerate(syms[:9]):
                items += [sym_item(r, s)] * (2 ** j)
            items += [sym_item(r, s) for s in syms[:9]] * 2
        else:                    # blocks: aaaa bbbb cccc … then abc abc
            m = r.randrange(2, 9)
            for s in syms[:60]:
                items += [sym_item(r, s)] * m
            items += [sym_item(r, s) for s in syms[:60]] * 2
        cs.append(Case("ties-%d" % i, ",".join(items), "ties", want_model=(len(items) < 700)))
    # deep tree (codes longer than 16 bits): m heavy symbols forming a chain above the balanced subtree U of the
    # 314 - m symbols of frequency 1.  Huffman keeps the chain when every next weight exceeds both the weight
    # accumulated so far and its predecessor: c1 > U, c2 > max(U, c1), c(i+2) > max(U + c1 + .. + ci, c(i+1)).
    # m = 9 is the most that fits below MAX_FREQ: 9 levels of chain + 9 levels inside U = 18-bit codes.
    for i in range(3):
        m = 9
        heavy = r.sample(range(256), m)                   # literals (the output stays small)
        acc, prev, items = NSYM - m, 0, []
        accs = [acc]
        for j, s in enumerate(heavy):
            lower = max(accs[j - 1] if j >= 1 else accs[0], prev)
            w = lower + r.choice([1, 1, 2, 3])
            items.append("Q1.%d.%d" % (w - 1, s))         # initial frequency 1 + (w - 1) uses
            accs.append(accs[-1] + w); prev = w
        rest = [s for s in range(NSYM) if s not in heavy]
        r.shuffle(rest)
        items += [sym_item(r, s) for s in rest[:r.choice([5, 40, 305])]]
        items += [sym_item(r, s) for s in heavy]
        cs.append(Case("deep-tree-%d" % i, ",".join(items), "deep-tree", long=True, expect={"maxcode_gt": 16}))
    # F: long sequences, two and more rebuilds
    sizes = [(50000, 70000), (70000, 100000), (100001, 160000)]
    for prof in range(8):
        for (lo, hi) in sizes:
            n = r.randrange(lo, hi)
            if prof == 6:
                n = r.randrange(50000, 60000)        # copies only: ~31 bytes per symbol
            cs.append(Case("long-R%d-%d" % (prof, n), "R%d.%d.%d" % (r.randrange(1 << 30), n, prof), "long", long=True,
                           expect={"rebuilds_ge": 2}))
    for k in [2, 3, 5, 64, 157, 313, 314]:
        n = r.randrange(50000, 120000)
        cs.append(Case("long-Q%d-%d" % (k, n), "Q%d.%d.%d" % (k, n, r.randrange(NSYM)), "long", long=True, expect={"rebuilds_ge": 2}))
    for i in range(3):
        parts = []
        for _ in range(r.randrange(3, 7)):
            if r.random() < 0.5:
                parts.append("R%d.%d.%d" % (r.randrange(1 << 30), r.randrange(10000, 40000), r.randrange(8)))
            else:
                parts.append("Q%d.%d.%d" % (r.randrange(1, NSYM + 1), r.randrange(10000, 40000), r.randrange(NSYM)))
        cs.append(Case("long-mix-%d" % i, ",".join(parts), "long", long=True))
    return cs


def lhv(lines):
    out, crashes = core.run_lines_parallel([core.lhv_path()], lines)
    if crashes:
        raise SystemExit("lhv crashed: %r" % (crashes[0][:2],))
    return out


def kv(line):
    return {k: int(v) for k, v in (t.split("=") for t in line.split())}


def first_use_after_rebuild_cases(r):
    """A symbol X never used before whose `update` is the one that calls `reconst`, followed by a never used Y
    (the first symbol coded with the rebuilt tree).  The root frequency is read from the spec (`lh1tree`)."""
    specs = []
    for i in range(4):
        lit_fill = (i % 2 == 0)
        fillprof = 2 if lit_fill else 6
        pool = list(range(256, NSYM)) if lit_fill else list(range(256))
        x, y = r.sample(pool, 2)
        nreb = 1 if i < 2 else 2
        specs.append((lit_fill, fillprof, x, y, nreb))
    cases = []
    for idx, (lit_fill, fillprof, x, y, nreb) in enumerate(specs):
        prefix = []
        for rb in range(nreb):
            tree = lhv(["lh1tree " + (",".join(prefix) or "-")])[0]
            root = int(tree.split()[0].split("=")[1].split(",")[626])
            need = 0x8000 - root
            prefix.append("R%d.%d.%d" % (r.randrange(1 << 30), need, fillprof))
            if rb < nreb - 1:
                # one more filler symbol triggers this rebuild; go on to the next one
                prefix.append("R%d.1.%d" % (r.randrange(1 << 30), fillprof))
        a = kv(lhv(["lh1info " + ",".join(prefix)])[0])
        cmds = prefix + [sym_item(r, x), sym_item(r, y), "R%d.%d.0" % (r.randrange(1 << 30), r.randrange(5, 200))]
        b = kv(lhv(["lh1info " + ",".join(prefix + [sym_item(r, x)])])[0])
        ok = (a["rebuilds"] == nreb - 1 and b["rebuilds"] == nreb)
        c = Case("first-use-after-rebuild-%d" % idx, ",".join(cmds), "first-use-after-rebuild", long=not (idx == 0),
                 want_model=(idx == 0), expect={"rebuilds_ge": nreb})
        c.construction_ok = ok
        cases.append(c)
    return cases


def cmp_out(got_hex, exp_hex, declen):
    """None | description"""
    got = "" if got_hex == "-" else got_hex
    exp = "" if exp_hex == "-" else exp_hex
    full = len(exp) // 2
    if declen <= full:
        want = exp[:2 * declen]
        if got == want:
            return None
    else:
        if got[:len(exp)] == exp and len(got) // 2 <= declen:
            return None
        want = exp
    n = min(len(got), len(want))
    i = next((j for j in range(0, n, 2) if got[j:j + 2] != want[j:j + 2]), n)
    return "got %d bytes, expected %d; first difference at byte %d" % (len(got) // 2, len(want) // 2, i // 2)


def long_schedule(r):
    return r.choice([[], [4096], [1000], [r.randrange(500, 9000)], [7, 100, 5000], [1, 2, 3, 60000]])


def main():
    seed = int(os.environ.get("VERIF_SEED", "1"))
    t0 = time.time()
    ctx = core.Ctx("C02", "full", seed)
    r = ctx.rng
    mism = []
    ncases = 0
    try:
        ok, log = core.lake_build(["lhv"])
        if not ok:
            print(log[-3000:]); raise SystemExit("lake build lhv failed")
        vh, log = core.build_vh(ctx, ["decoder"])
        if vh is None:
            print(log); raise SystemExit("harness build failed")

        rounds = max(1, int(round(float(os.environ.get("DIFFTEST_SCALE", "1.0")))))      # thorough tier: several rounds of the generator
        cases = []
        for rd in range(rounds):
            batch = gen_cases(r) + first_use_after_rebuild_cases(r)
            for c in batch:
                c.name = "%s@%d" % (c.name, rd) if rounds > 1 else c.name
            cases += batch
        print("generated %d command sequences (seed %d)" % (len(cases), seed), flush=True)
        ser = lhv(["lh1ser " + c.cmds for c in cases])
        exp = lhv(["lh1exp " + c.cmds for c in cases])
        info = [kv(x) for x in lhv(["lh1info " + c.cmds for c in cases])]
        mirror = lhv(["lh1mirror " + c.cmds for c in cases])
        print("spec side done (%.0fs)" % (time.time() - t0), flush=True)

        c_ops, m_idx, d_ops, decl, costs = [], [], [], [], []
        budget = MODEL_BUDGET
        for c, hx, ex, inf in zip(cases, ser, exp, info):
            full = 0 if ex == "-" else len(ex) // 2
            assert full == inf["outlen"]
            data = (b"" if hx == "-" else bytes.fromhex(hx)) + b"\0" * c.pad
            if c.family in ("first-use-after-rebuild", "deep-tree"):
                declen = full
                sched, chunk = long_schedule(r), r.choice([0, 0, 1, 3])
            elif c.long:
                declen = r.choice([full, full, full, r.randrange(full + 1)])
                sched, chunk = long_schedule(r), r.choice([0, 0, 0, 1, 3, 4096])
            else:
                declen = r.choice([full, full, full, full + 10, max(0, full - 3), r.randrange(full + 1)])
                sched, chunk = S.schedule(r, declen), r.choice([0, 0, 1, 2, 3, 5])
            decl.append(declen)
            op = S.dec_op("lh1", declen, chunk, -1, sched, data)
            c_ops.append(op)
            costs.append(min(declen, full))
            d_ops.append("lh1dec %d %s" % (declen, data.hex() or "-"))
        # the slow model gets at most MODEL_BUDGET bytes of output: the rebuild case first, then the small families
        prio = ["root-tie", "first-use-after-rebuild", "ties", "all-symbols", "round-robin", "upper-class", "short-random"]
        for i in sorted((i for i, c in enumerate(cases) if c.want_model), key=lambda i: (prio.index(cases[i].family), i)):
            if costs[i] <= budget:
                budget -= costs[i]
                m_idx.append(i)
        c_out, crashes = core.run_lines_parallel([vh], c_ops)
        print("C side done (%.0fs), %d crashes" % (time.time() - t0, len(crashes)), flush=True)
        d_out = lhv(d_ops)
        m_out = lhv([c_ops[i] for i in m_idx])
        print("model side done (%.0fs): %d sequences, %d bytes" % (time.time() - t0, len(m_idx), MODEL_BUDGET - budget), flush=True)
        m_of = dict(zip(m_idx, m_out))

        fam = {}
        for i, c in enumerate(cases):
            ncases += 1
            f = fam.setdefault(c.family, [0, 0, 0])
            f[0] += 1
            inf, declen, ex = info[i], decl[i], exp[i]
            problems = []
            if inf["valid"] != 1:
                problems.append("generator produced an invalid command")
            if "rebuilds_ge" in c.expect and inf["rebuilds"] < c.expect["rebuilds_ge"]:
                problems.append("coverage: %d rebuilds < %d" % (inf["rebuilds"], c.expect["rebuilds_ge"]))
            if "maxcode_gt" in c.expect and inf["maxcode"] <= c.expect["maxcode_gt"]:
                problems.append("coverage: longest code %d <= %d" % (inf["maxcode"], c.expect["maxcode_gt"]))
            if getattr(c, "construction_ok", True) is not True:
                problems.append("coverage: the rebuild does not fall on the intended symbol")
            if mirror[i] != "ok %d" % inf["syms"]:
                problems.append("tree of the decoder model is not the mirror image of the LZHUF tree: " + core.short(mirror[i], 200))
            d = S.parse_dec(c_out[i])
            if d is None:
                problems.append("C: " + core.short(c_out[i], 100))
            else:
                w = cmp_out(d["out"], ex, declen)
                if w:
                    problems.append("C vs spec expansion: " + w)
                if d["extra"]:
                    problems.append("C: " + d["extra"])
                if not c.long:
                    got = b"" if d["out"] == "-" else bytes.fromhex(d["out"])
                    if int(d["crc"], 16) != lhaenc.crc16(got):
                        problems.append("C: crc field %s is not the CRC of the output" % d["crc"])
            w = cmp_out(d_out[i], ex, declen)
            if w:
                problems.append("spec decoder vs spec expansion: " + w)
            if i in m_of:
                f[1] += 1
                dm = S.parse_dec(m_of[i])
                if dm is None:
                    problems.append("model: " + core.short(m_of[i], 100))
                else:
                    w = cmp_out(dm["out"], ex, declen)
                    if w:
                        problems.append("model vs spec expansion: " + w)
                    if dm["extra"]:
                        problems.append("model: " + dm["extra"])
                    if d is not None and (dm["out"], dm["len"], dm["crc"]) != (d["out"], d["len"], d["crc"]):
                        problems.append("model vs C: results differ")
            if inf["rebuilds"] >= 2:
                f[2] += 1
            if problems:
                mism.append((c, c_ops[i], problems))

        # ---- corpus oracle
        members = corpus.by_method(core.lhv_path()).get("-lh1-", [])
        cap = int(os.environ.get("LH1_CORPUS_CAP", str(4 << 20)))
        members = [x for x in members if x["length"] <= cap]
        douts = lhv(["lh1dec %d %s" % (x["length"], x["data"].hex() or "-") for x in members])
        dinfo = [kv(x) for x in lhv(["lh1dinfo %d %s" % (x["length"], x["data"].hex() or "-") for x in members])]
        couts, _ = core.run_lines_parallel([vh], [S.dec_op("lh1", x["length"], 0, -1, [], x["data"]) for x in members])
        maxreb = 0
        for x, o, di, co in zip(members, douts, dinfo, couts):
            ncases += 1
            b = b"" if o == "-" else bytes.fromhex(o)
            problems = []
            if len(b) != x["length"]:
                problems.append("spec decoder: %d bytes, recorded length %d" % (len(b), x["length"]))
            if lhaenc.crc16(b) != x["crc"]:
                problems.append("spec decoder: CRC %04x, recorded %04x" % (lhaenc.crc16(b), x["crc"]))
            if di["reencoded"] != 1 or di["enclen"] != len(x["data"]):
                problems.append("spec encoder does not reproduce the member's compressed bytes (enclen %d of %d)" % (di["enclen"], len(x["data"])))
            d = S.parse_dec(co)
            if d is None or d["out"] != o:
                problems.append("C decoder output differs from the spec decoder's")
            maxreb = max(maxreb, di["rebuilds"])
            if problems:
                mism.append((Case("corpus:%s@%d" % (x["archive"], x["offset"]), "(member)", "corpus"), "", problems))
        print("corpus oracle: %d -lh1- members (largest %d bytes, up to %d rebuilds): %s" % (
            len(members), max([x["length"] for x in members] or [0]), maxreb,
            "all decode to recorded length+CRC, C agrees, re-encoding reproduces the compressed bytes"
            if not any(m[0].family == "corpus" for m in mism) else "MISMATCH"))

        print("family                     cases  model  >=2 rebuilds")
        for k, (n, m, rb) in sorted(fam.items()):
            print("  %-24s %5d  %5d  %5d" % (k, n, m, rb))
        nreb2 = sum(1 for inf in info if inf["rebuilds"] >= 2)
        n100k = sum(1 for inf in info if inf["syms"] > 100000)
        print("sequences with >= 2 rebuilds: %d; with > 100000 symbols: %d; longest code: %d bits; max rebuilds: %d" % (
            nreb2, n100k, max(inf["maxcode"] for inf in info), max(inf["rebuilds"] for inf in info)))
        tail = [c for c, inf in zip(cases, info) if inf["bits"] % 8 == 0 and c.pad == 0 and c.cmds.split(",")[-1].startswith("C")]
        tail3 = [c for c in tail if int(c.cmds.split(",")[-1][1:].split(".")[0]) < 64]
        print("streams without padding at all that end in a position code: %d (3-bit code of class 0: %d)" % (len(tail), len(tail3)))
        if not tail3:
            mism.append((Case("coverage", "-", "coverage"), "", ["no stream ends in a 3-bit position code exactly at a byte boundary"]))
        if nreb2 < 20 or n100k < 3:
            mism.append((Case("coverage", "-", "coverage"), "", ["fewer than 20 sequences with two rebuilds / 3 above 100000 symbols"]))
    finally:
        ctx.cleanup()

    print("difftest_lh1: %d cases, %d mismatches  (seed %d, %.0fs)" % (ncases, len(mism), seed, time.time() - t0))
    for c, op, problems in mism[:40]:
        print("MISMATCH %s [%s]" % (c.name, c.family))
        print("   cmds: " + core.short(c.cmds, 300))
        if op:
            print("   op:   " + core.short(op, 300))
        for p in problems:
            print("   - " + p)
    return 1 if mism else 0


if __name__ == "__main__":
    sys.exit(main())
