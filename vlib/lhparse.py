"""Independent PARSER of real static-Huffman (-lh4- … -lh7-, -lhx-) streams into the block description language of
`Spec.LhNewEnc` (op `lhnser`), used as tie (c): real members written by historical encoders are parsed here, re-serialised by
the Lean specification, and must come back bit for bit.  Nothing here is shared with the Lean model or spec."""

FMT = {"lh4": (4, 510, 15), "lh5": (4, 510, 15), "lh6": (5, 510, 31), "lh7": (5, 510, 31), "lhx": (5, 510, 31), "lk7": (6, 289, 63)}


class Bits:
    def __init__(self, data):
        self.d, self.p = data, 0

    def get(self, n):
        v = 0
        for _ in range(n):
            byte = self.p >> 3
            if byte >= len(self.d):
                raise EOFError
            v = (v << 1) | ((self.d[byte] >> (7 - (self.p & 7))) & 1)
            self.p += 1
        return v


def canon_decoder(lens):
    """dict (length, code) -> symbol, codes assigned per length class in index order (LHA make_table)"""
    tab = {}
    code = 0
    for L in range(1, max(lens) + 1 if lens else 1):
        for s, l in enumerate(lens):
            if l == L:
                tab[(L, code)] = s
                code += 1
        code <<= 1
    return tab


def read_sym(b, table):
    """table: ('s', c) | ('l', decoder dict)"""
    if table[0] == "s":
        return table[1]
    code, L = 0, 0
    while True:
        code = (code << 1) | b.get(1)
        L += 1
        if (L, code) in table[1]:
            return table[1][(L, code)]
        if L > 32:
            raise ValueError("no code")


def read_len_value(b):
    v = b.get(3)
    if v == 7:
        while b.get(1):
            v += 1
    return v


def parse(meth, data, declen):
    """returns (description text, produced, bits consumed)"""
    ob, nc, moc = FMT[meth]
    b = Bits(data)
    produced = 0
    blocks = []
    while produced < declen:
        count = b.get(16)
        # temp table
        n = b.get(5)
        if n == 0:
            c = b.get(5)
            ttxt, ttab = "s%d" % c, ("s", c)
        else:
            lens, skip, i = [], 0, 0
            while i < n:
                lens.append(read_len_value(b))
                i += 1
                if i == 3:
                    skip = b.get(2)
                    for _ in range(skip):
                        lens.append(0)
                        i += 1
            lens = lens[:max(n, 3 + skip)] if n >= 3 else lens
            ttxt, ttab = "l%sk%d" % (".".join(map(str, lens[:n] if len(lens) >= n else lens)), skip), ("l", canon_decoder(lens))
            if len(lens) > n:
                # the skip ran past n: the description language needs n entries exactly
                ttxt = "l%sk%d" % (".".join(map(str, lens[:n])), skip)
        # code table
        n = b.get(9)
        if n == 0:
            c = b.get(9)
            ctxt, ctab = "s%d" % c, ("s", c)
        else:
            toks, lens = [], []
            while len(lens) < n:
                s = read_sym(b, ttab)
                if s == 0:
                    toks.append("a"); lens.append(0)
                elif s == 1:
                    k = b.get(4) + 3
                    toks.append("b%d" % k); lens += [0] * k
                elif s == 2:
                    k = b.get(9) + 20
                    toks.append("c%d" % k); lens += [0] * k
                else:
                    toks.append(str(s - 2)); lens.append(s - 2)
            ctxt, ctab = "n%d:%s" % (n, ".".join(toks)), ("l", canon_decoder(lens[:n]))
        # offset table
        n = b.get(ob)
        if n == 0:
            c = b.get(ob)
            otxt, otab = "s%d" % c, ("s", c)
        else:
            lens = [read_len_value(b) for _ in range(n)]
            otxt, otab = "l" + ".".join(map(str, lens)), ("l", canon_decoder(lens))
        cmds = []
        for _ in range(count):
            if produced >= declen:
                break
            s = read_sym(b, ctab)
            if s < 256:
                cmds.append("L%02x" % s)
                produced += 1
            elif meth == "lk7":
                alt = False
                if s < 264:
                    ln = s - 256 + 3
                elif s < 288:
                    k = (s - 260) // 4
                    ln = ((4 + s % 4) << k) + b.get(k) + 3
                else:
                    ln, alt = 514, True
                o = read_sym(b, otab)
                if o < 4:
                    d = o
                else:
                    k = (o - 2) // 2
                    d = ((2 + o % 2) << k) + b.get(k)
                cmds.append(("A%d" % d) if alt else "C%d.%d" % (d, ln))
                produced += ln
            else:
                ln = s - 256 + 3
                o = read_sym(b, otab)
                d = o if o < 2 else (1 << (o - 1)) + b.get(o - 1)
                cmds.append("C%d.%d" % (d, ln))
                produced += ln
        truncated = len(cmds) != count
        blocks.append(("%s;%s;%s;%s" % (ttxt, ctxt, otxt, ",".join(cmds) or "-"), count, truncated))
    return blocks, produced, b.p


# ------------------------------------------------------------------ LArc

def parse_lzs(data, declen):
    b = Bits(data)
    cmds, produced = [], 0
    while produced < declen:
        if b.get(1):
            cmds.append("L%02x" % b.get(8)); produced += 1
        else:
            pos = b.get(11); ln = b.get(4) + 2
            cmds.append("C%d.%d" % (pos, ln)); produced += ln
    return ",".join(cmds) or "-", produced


def parse_lz5(data, declen):
    cmds, produced, i = [], 0, 0
    while produced < declen and i < len(data):
        flag = data[i]; i += 1
        for bit in range(8):
            if produced >= declen or i >= len(data):
                break
            if flag & (1 << bit):
                cmds.append("L%02x" % data[i]); i += 1; produced += 1
            else:
                if i + 1 >= len(data):
                    i = len(data); break
                pos = data[i] | ((data[i + 1] & 0xf0) << 4); ln = (data[i + 1] & 0x0f) + 3
                cmds.append("C%d.%d" % (pos, ln)); i += 2; produced += ln
    return ",".join(cmds) or "-", produced


# ------------------------------------------------------------------ PMarc

INIT_ORDER = (list(range(0x20, 0x80)) + list(range(0x00, 0x20)) + list(range(0xa0, 0xe0)) +
              list(range(0x80, 0xa0)) + list(range(0xe0, 0x100)))
PM2_BYTE = [(0, 3), (8, 3), (16, 4), (32, 5), (64, 5), (96, 5), (128, 6), (192, 6)]
PM2_COPY = [(17, 3), (25, 3), (33, 5), (65, 6), (129, 7), (256, 0)]
PM1_BYTE = [(0, 4), (16, 4), (32, 5), (64, 6), (128, 6), (192, 6)]
_T = "abcdef"
PM1_TREES = ["((((a b) c) d) (e f))", "(((a b) (c f)) (d e))", "(((a b) c) (d (e f)))", "((a (b c)) (d (e f)))", "((a (b d)) (c (e f)))",
             "((a (b (e f))) (c d))", "((a b) ((c d) (e f)))", "((a b) ((c (e f)) d))", "((a b) (c (d (e f))))", "(a (((b f) c) (d e)))",
             "(a (((b (e f)) c) d))", "(a (((b c) d) (e f)))", "(a ((b (c f)) (d e)))", "(a ((b c) (d (e f))))", "(a ((b (d (e f))) c))",
             "(a (b ((c d) (e f))))", "(a (b (c (d (e f)))))", "(((d e) c) (d e))", "((a (b e)) (c d))", "((a b) (c (d e)))",
             "(a (((b e) c) d))", "(a ((b c) (d e)))", "(a ((b (d e)) c))", "(a (b (c (d e))))", "(((a b) c) d)", "((a (b d)) c)",
             "((a b) (c d))", "(a ((b d) c))", "(a (b (c d)))", "(a (b c))", "(a b)", None]


def _ptree(s):
    toks = s.replace("(", " ( ").replace(")", " ) ").split()

    def rd(i):
        if toks[i] == "(":
            l, i = rd(i + 1)
            r, i = rd(i)
            return (l, r), i + 1
        return _T.index(toks[i]), i + 1
    return rd(0)[0]


def _paths(t, c, pre=()):
    if isinstance(t, int):
        return [pre] if t == c else []
    return _paths(t[0], c, pre + (0,)) + _paths(t[1], c, pre + (1,))


class Out:
    def __init__(self, fill):
        self.out, self.mtf, self.fill = bytearray(), list(INIT_ORDER), fill

    def emit(self, b):
        self.out.append(b)
        if self.mtf[0] != b:
            self.mtf.remove(b)
            self.mtf.insert(0, b)

    def copy(self, d, n):
        for _ in range(n):
            i = len(self.out) - 1 - d
            self.emit(self.out[i] if i >= 0 else self.fill)


def parse_pm1(data, declen):
    """returns (tree, cmds text, produced)"""
    b = Bits(data + bytes(64))        # the decoder sees zero bits past the end
    tree = b.get(5)
    t = _ptree(PM1_TREES[tree]) if PM1_TREES[tree] else None
    o = Out(0)
    cmds = []

    def copy_cmd():
        pos = len(o.out)
        x = b.get(1)
        if x == 0:
            if pos >= 576 and b.get(1):
                ri = 4
            else:
                ri = b.get(1) if pos >= 64 else 0
        else:
            y = b.get(1) if pos >= 64 else 1
            if y == 0:
                ri = 3
            else:
                z = b.get(1) if pos >= 2624 else 1
                ri = 2 if z else 5
        if ri < 2:
            n = 2
        else:
            x = b.get(2)
            if x < 3:
                n = x + 3
            else:
                x = b.get(3)
                if x < 5:
                    n = x + 6
                elif x == 5:
                    n = b.get(2) + 11
                elif x == 6:
                    n = b.get(3) + 15
                else:
                    x = b.get(6)
                    n = x + 23 if x < 62 else (b.get(5) + 85 if x == 62 else b.get(7) + 117)
        if ri == 0 or ri == 2:
            d = b.get(6)
        elif ri == 1:
            d = 64 + b.get(8)
        elif ri == 3:
            d = 64 + b.get(8 if pos < 320 else 9)
        elif ri == 4:
            d = 576 + b.get(8 if pos < 832 else 9 if pos < 1088 else 10 if pos < 1600 else 11)
        else:
            d = 2624 + b.get(8 if pos < 2880 else 9 if pos < 3136 else 10 if pos < 3648 else 11 if pos < 4672 else 12 if pos < 6720 else 13)
        o.copy(d, n)
        return d, n

    while len(o.out) < declen:
        if b.get(1) == 0:
            d, n = copy_cmd()
            cmds.append("C%d.%d" % (d, n))
        else:
            x = b.get(2)
            if x < 3:
                bl = x + 1
            else:
                x = b.get(3)
                if x < 7:
                    bl = x + 4
                else:
                    x = b.get(4)
                    bl = x + 11 if x < 14 else (b.get(6) + 25 if x == 14 else b.get(7) + 89)
            bs, alts = [], []
            for _ in range(bl):
                if t is None:
                    c, alt = 0, 0
                else:
                    node, path = t, ()
                    while not isinstance(node, int):
                        bit = b.get(1)
                        path += (bit,)
                        node = node[bit]
                    c = node
                    alt = _paths(t, c).index(path)
                lo, w = PM1_BYTE[c]
                k = lo + b.get(w)
                byte = o.mtf[k]
                bs.append(byte); alts.append(alt)
                o.emit(byte)
            if bl == 216:
                cp = "-"
            else:
                d, n = copy_cmd()
                cp = "%d.%d" % (d, n)
            cmds.append("K%s:%s:%s" % (bytes(bs).hex(), ".".join(map(str, alts)) if any(alts) else "-", cp))
    return tree, ",".join(cmds) or "-", len(o.out)


def parse_pm2(data, declen):
    """returns (first, rebuilds text, cmds text, produced)"""
    b = Bits(data + bytes(64))
    first = b.get(1)
    o = Out(0x20)
    st = {"code": None, "off": None, "need": False}
    rebuilds = []

    def read_code():
        n = b.get(5); mn = b.get(3)
        st["need"] = n >= 10 and not (n == 29 and mn == 0)
        if mn == 0:
            st["code"] = ("s", n - 1)
            return "s%d" % n
        lb = b.get(3)
        lens = []
        for _ in range(n):
            v = b.get(lb)
            lens.append(0 if v == 0 else mn + v - 1)
        st["code"] = ("l", canon_decoder(lens))
        return "l%d.%d:%s" % (mn, lb, ".".join(map(str, lens)))

    def read_off(no):
        if not st["need"]:
            return "-"
        lens = [b.get(3) for _ in range(no)]
        nz = [i for i, l in enumerate(lens) if l]
        st["off"] = ("s", nz[0]) if len(nz) == 1 else ("l", canon_decoder(lens))
        return ".".join(map(str, lens))

    phase, next_at = 0, 0

    def rebuild():
        nonlocal phase, next_at
        if phase == 0:
            c = read_code(); of = read_off(5)
        elif phase == 1:
            c, of = "-", read_off(6)
        elif phase == 2:
            c, of = "-", read_off(7)
        elif phase == 3:
            c = read_code() if b.get(1) else "-"
            of = read_off(8)
        else:
            if b.get(1):
                c = read_code(); of = read_off(8)
            else:
                c, of = "-", "-"
        rebuilds.append("%s;%s" % (c, of))
        next_at += 1024 if phase <= 1 else 2048 if phase == 2 else 4096
        phase += 1

    rebuild()
    cmds = []
    while len(o.out) < declen:
        s = read_sym(b, st["code"])
        if s < 8:
            lo, w = PM2_BYTE[s]
            byte = o.mtf[lo + b.get(w)]
            cmds.append("B%02x" % byte)
            o.emit(byte)
        else:
            c = s - 8
            if c < 15:
                n = c + 2
            else:
                lo, w = PM2_COPY[c - 15]
                n = lo + b.get(w)
            if c == 0:
                d = b.get(6)
            elif c < 20:
                v = read_sym(b, st["off"])
                d = b.get(6) if v == 0 else (1 << (v + 5)) + b.get(v + 5)
            else:
                d = 0
            cmds.append("A" if c == 20 else "C%d.%d" % (d, n))
            o.copy(d, n)
        if len(o.out) >= next_at:
            rebuild()
    return first, "/".join(rebuilds), ",".join(cmds) or "-", len(o.out)
