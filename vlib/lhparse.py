"""Independent PARSER of real static-Huffman (-lh4- … -lh7-, -lhx-) streams into the block description language of
`Spec.LhNewEnc` (op `lhnser`), used as tie (c): real members written by historical encoders are parsed here, re-serialised by
the Lean specification, and must come back bit for bit.  Nothing here is shared with the Lean model or spec."""

FMT = {"lh4": (4, 510, 15), "lh5": (4, 510, 15), "lh6": (5, 510, 31), "lh7": (5, 510, 31), "lhx": (5, 510, 31), "lk7": (6, 289, 63)}


class Bits:
    def __init__(self, data):
        self.d, self.p = data, 0

    def get(self, n):
        v = 0
        for _ in range(n):
            byte = self.p >> 3
            if byte >= len(self.d):
                raise EOFError
            v = (v << 1) | ((self.d[byte] >> (7 - (self.p & 7))) & 1)
            self.p += 1
        return v


def canon_decoder(lens):
    """dict (length, code) -> symbol, codes assigned per length class in index order (LHA make_table)"""
    tab = {}
    code = 0
    for L in range(1, max(lens) + 1 if lens else 1):
        for s, l in enumerate(lens):
            if l == L:
                tab[(L, code)] = s
                code += 1
        code <<= 1
    return tab


def read_sym(b, table):
    """table: ('s', c) | ('l', decoder dict)"""
    if table[0] == "s":
        return table[1]
    code, L = 0, 0
    while True:
        code = (code << 1) | b.get(1)
        L += 1
        if (L, code) in table[1]:
            return table[1][(L, code)]
        if L > 32:
            raise ValueError("no code")


def read_len_value(b):
    v = b.get(3)
    if v == 7:
        while b.get(1):
            v += 1
    return v


def parse(meth, data, declen):
    """returns (description text, produced, bits consumed)"""
    ob, nc, moc = FMT[meth]
    b = Bits(data)
    produced = 0
    blocks = []
    while produced < declen:
        count = b.get(16)
        # temp table
        n = b.get(5)
        if n == 0:
            c = b.get(5)
            ttxt, ttab = "s%d" % c, ("s", c)
        else:
            lens, skip, i = [], 0, 0
            while i < n:
                lens.append(read_len_value(b))
                i += 1
                if i == 3:
                    skip = b.get(2)
                    for _ in range(skip):
                        lens.append(0)
                        i += 1
            lens = lens[:max(n, 3 + skip)] if n >= 3 else lens
            ttxt, ttab = "l%sk%d" % (".".join(map(str, lens[:n] if len(lens) >= n else lens)), skip), ("l", canon_decoder(lens))
            if len(lens) > n:
                # the skip ran past n: the description language needs n entries exactly
                ttxt = "l%sk%d" % (".".join(map(str, lens[:n])), skip)
        # code table
        n = b.get(9)
        if n == 0:
            c = b.get(9)
            ctxt, ctab = "s%d" % c, ("s", c)
        else:
            toks, lens = [], []
            while len(lens) < n:
                s = read_sym(b, ttab)
                if s == 0:
                    toks.append("a"); lens.append(0)
                elif s == 1:
                    k = b.get(4) + 3
                    toks.append("b%d" % k); lens += [0] * k
                elif s == 2:
                    k = b.get(9) + 20
                    toks.append("c%d" % k); lens += [0] * k
                else:
                    toks.append(str(s - 2)); lens.append(s - 2)
            ctxt, ctab = "n%d:%s" % (n, ".".join(toks)), ("l", canon_decoder(lens[:n]))
        # offset table
        n = b.get(ob)
        if n == 0:
            c = b.get(ob)
            otxt, otab = "s%d" % c, ("s", c)
        else:
            lens = [read_len_value(b) for _ in range(n)]
            otxt, otab = "l" + ".".join(map(str, lens)), ("l", canon_decoder(lens))
        cmds = []
        for _ in range(count):
            if produced >= declen:
                break
            s = read_sym(b, ctab)
            if s < 256:
                cmds.append("L%02x" % s)
                produced += 1
            elif meth == "lk7":
                alt = False
                if s < 264:
                    ln = s - 256 + 3
                elif s < 288:
                    k = (s - 260) // 4
                    ln = ((4 + s % 4) << k) + b.get(k) + 3
                else:
                    ln, alt = 514, True
                o = read_sym(b, otab)
                if o < 4:
                    d = o
                else:
                    k = (o - 2) // 2
                    d = ((2 + o % 2) << k) + b.get(k)
                cmds.append(("A%d" % d) if alt else "C%d.%d" % (d, ln))
                produced += ln
            else:
                ln = s - 256 + 3
                o = read_sym(b, otab)
                d = o if o < 2 else (1 << (o - 1)) + b.get(o - 1)
                cmds.append("C%d.%d" % (d, ln))
                produced += ln
        truncated = len(cmds) != count
        blocks.append(("%s;%s;%s;%s" % (ttxt, ctxt, otxt, ",".join(cmds) or "-"), count, truncated))
    return blocks, produced, b.p


# ------------------------------------------------------------------ LArc

def parse_lzs(data, declen):
    b = Bits(data)
    cmds, produced = [], 0
    while produced < declen:
        if b.get(1):
            cmds.append("L%02x" % b.get(8)); produced += 1
        else:
            pos = b.get(11); ln = b.get(4) + 2
            cmds.append("C%d.%d" % (pos, ln)); produced += ln
    return ",".join(cmds) or "-", produced


def parse_lz5(data, declen):
    cmds, produced, i = [], 0, 0
    while produced < declen and i < len(data):
        flag = data[i]; i += 1
        for bit in range(8):
            if produced >= declen or i >= len(data):
                break
            if flag & (1 << bit):
                cmds.append("L%02x" % data[i]); i += 1; produced += 1
            else:
                if i + 1 >= len(data):
                    i = len(data); break
                pos = data[i] | ((data[i + 1] & 0xf0) << 4); ln = (data[i + 1] & 0x0f) + 3
                cmds.append("C%d.%d" % (pos, ln)); i += 2; produced += ln
    return ",".join(cmds) or "-", produced
