"""Header generators shared by the header-level checks (C05, C08, C11, C12, C13)."""
import itertools
from vlib import lhaenc as E

OS_TYPES = [0x00, 0x4d, 0x77, 0x57, 0x55, 0x32, 0x6d, 0x41, 0x61, 0x4a, 0x43, 0x46, 0x52, 0x54, 0x39, 0x4b,
            0x33, 0x48, 0x20]
DOS_LIKE = {0x00, 0x4d, 0x61, 0x20, 0x32}
METHODS = [b"-lh0-", b"-lh1-", b"-lh4-", b"-lh5-", b"-lh6-", b"-lh7-", b"-lhx-", b"-lz4-", b"-lz5-", b"-lzs-",
           b"-pm0-", b"-pm1-", b"-pm2-", b"-lhd-"]


def parse_dump(line):
    """'ok k=v k=v ...' -> dict; None when the parser returned no header."""
    if not line.startswith("ok "):
        return None
    d = {}
    for tok in line.split()[1:]:
        k, _, v = tok.partition("=")
        d[k] = v
    return d


def hexfield(v):
    if v == "~":
        return None
    if v == "-":
        return b""
    return bytes.fromhex(v)


def clean_path_violation(p):
    """None if bytes `p` satisfy the C11 path invariant, else a description."""
    if p is None:
        return None
    q = p[1:] if p[:1] == b"/" else p
    parts = q.split(b"/")
    for comp in parts[:-1]:          # the '/'-terminated components
        if comp in (b"", b".", b".."):
            return "path %r has a '/'-terminated component %r" % (p, comp)
    return None


def name_violation(n):
    if n is not None and b"/" in n:
        return "file name %r contains '/'" % n
    return None


def words(alphabet, maxlen, minlen=0):
    for n in range(minlen, maxlen + 1):
        for t in itertools.product(alphabet, repeat=n):
            yield bytes(t)


def rand_word(r, alphabet, maxlen):
    n = r.randrange(0, maxlen + 1)
    return bytes(r.choice(alphabet) for _ in range(n))


def name_routes(r, s, s2=None):
    """All the ways a stored name/path string `s` can reach the parser.
    Returns list of (route-tag, header bytes)."""
    out = []
    os_t = r.choice(OS_TYPES)
    s2 = s if s2 is None else s2
    # level-0 in-header name (file and directory)
    if len(s) < 200:
        out.append(("l0-name", E.encode(E.Fields(level=0, method=b"-lh0-", name=s))))
        out.append(("l0-dir", E.encode(E.Fields(level=0, method=b"-lhd-", name=s))))
        out.append(("l1-name", E.encode(E.Fields(level=1, method=b"-lh5-", name=s, os_type=os_t))))
        # level-1: in-header name + overriding extended headers
        out.append(("l1-name+ext-path", E.encode(E.Fields(level=1, method=b"-lh5-", name=s, os_type=os_t,
                                                          exts=[(E.EXT_PATH, s2)] if s2 else []))))
        out.append(("l1-name+ext-name", E.encode(E.Fields(level=1, method=b"-lh5-", name=s, os_type=os_t,
                                                          exts=[(E.EXT_FILENAME, s2)] if s2 else []))))
    lvl = r.choice([2, 3])
    if s:
        out.append(("ext-name", E.encode(E.Fields(level=lvl, method=b"-lh5-", os_type=os_t,
                                                  exts=[(E.EXT_FILENAME, s)]))))
        out.append(("ext-path", E.encode(E.Fields(level=lvl, method=b"-lhd-", os_type=os_t,
                                                  exts=[(E.EXT_PATH, s)]))))
        out.append(("ext-name+path", E.encode(E.Fields(level=lvl, method=b"-lh5-", os_type=os_t,
                                                       exts=[(E.EXT_FILENAME, s2 or b"x"), (E.EXT_PATH, s)]))))
        # symlink forms: -lhd- + unix perms 0120777; "name|target" in name, in path, or split
        perm = (E.EXT_PERM, (0o120777).to_bytes(2, "little"))
        out.append(("symlink-name", E.encode(E.Fields(level=lvl, method=b"-lhd-", os_type=0x55,
                                                      exts=[perm, (E.EXT_FILENAME, s)]))))
        out.append(("symlink-path", E.encode(E.Fields(level=lvl, method=b"-lhd-", os_type=0x55,
                                                      exts=[(E.EXT_PATH, s), perm]))))
        out.append(("symlink-split", E.encode(E.Fields(level=lvl, method=b"-lhd-", os_type=os_t,
                                                       exts=[(E.EXT_PATH, s), (E.EXT_FILENAME, s2 or b"x"), perm]))))
        # the name header AFTER a permission header of every type (symlink / directory / file), for file and directory methods, and
        # with a second permission header changing the type afterwards: what the name decoder does must not depend on other fields
        dperm = (E.EXT_PERM, (0o40755).to_bytes(2, "little"))
        fperm = (E.EXT_PERM, (0o100644).to_bytes(2, "little"))
        out.append(("perm-symlink,name/file", E.encode(E.Fields(level=lvl, method=r.choice([b"-lh0-", b"-lh5-"]), os_type=os_t,
                                                                exts=[perm, (E.EXT_FILENAME, s)]))))
        out.append(("perm-symlink,name,perm-dir/lhd", E.encode(E.Fields(level=lvl, method=b"-lhd-", os_type=os_t,
                                                                        exts=[perm, (E.EXT_FILENAME, s), dperm, (E.EXT_PATH, b"d\xff")]))))
        out.append(("perm-dir,name,perm-symlink/lhd", E.encode(E.Fields(level=lvl, method=b"-lhd-", os_type=os_t,
                                                                        exts=[dperm, (E.EXT_FILENAME, s), perm]))))
        out.append(("perm-file,name,path/lhd", E.encode(E.Fields(level=lvl, method=b"-lhd-", os_type=os_t,
                                                                 exts=[fperm, (E.EXT_FILENAME, s), (E.EXT_PATH, s2 or b"d\xff")]))))
        if len(s) < 200:
            out.append(("perm-symlink,name/l1-file", E.encode(E.Fields(level=1, method=b"-lh5-", name=b"n", os_type=os_t,
                                                                       exts=[perm, (E.EXT_FILENAME, s)]))))
        if len(s) < 200:
            out.append(("symlink-l0", E.encode(E.Fields(level=0, method=b"-lhd-", name=s,
                                                        area=bytes([0x55, 0, 0, 0, 0, 0]) + (0o120777).to_bytes(2, "little") + b"\0\0\0\0"))))
    return out


# --------------------------------------------------------------------------
# random well-formed headers (typed fields)

def rand_name(r, maxlen=20, alphabet=None):
    alphabet = alphabet or b"abcXYZ019._-| "
    n = r.randrange(1, maxlen + 1)
    return bytes(r.choice(alphabet) for _ in range(n))


def rand_exts(r, level, want_name=True, want_path=None, allow_common=True):
    """random list of extended headers (typed), in random order, with duplicates and unknown types"""
    exts = []
    if want_name:
        exts.append((E.EXT_FILENAME, rand_name(r, r.choice([1, 3, 12, 60]))))
    if want_path or (want_path is None and r.random() < 0.5):
        comps = [rand_name(r, 6, b"abcDEF12") for _ in range(r.randrange(1, 4))]
        p = b"\xff".join(comps) + (b"\xff" if r.random() < 0.8 else b"")
        exts.append((E.EXT_PATH, p))
    opt = [
        lambda: (E.EXT_PERM, r.choice([0o100644, 0o40755, 0o100000, 0o177777, r.randrange(65536)]).to_bytes(2, "little")),
        lambda: (E.EXT_UIDGID, r.randrange(65536).to_bytes(2, "little") + r.randrange(65536).to_bytes(2, "little")),
        lambda: (E.EXT_GROUP, rand_name(r, 8, b"grpGRP09")),
        lambda: (E.EXT_USER, rand_name(r, 8, b"usrUSR09")),
        lambda: (E.EXT_UTIME, r.choice([0, 1, 0x7fffffff, 0xffffffff, r.randrange(2 ** 32)]).to_bytes(4, "little")),
        lambda: (E.EXT_WINTIME, bytes(r.randrange(256) for _ in range(24))),
        lambda: (E.EXT_OS9, bytes(r.randrange(256) for _ in range(12))),
        lambda: (r.choice([0x39, 0x3f, 0x40, 0x7f, 0xff, 0x42]), bytes(r.randrange(256) for _ in range(r.randrange(0, 9)))),
        # too-short known headers are skipped by the parser
        lambda: (r.choice([E.EXT_PERM, E.EXT_UIDGID, E.EXT_UTIME, E.EXT_WINTIME, E.EXT_OS9]), b"\x01"),
    ]
    for _ in range(r.choice([0, 1, 2, 3, 5])):
        exts.append(r.choice(opt)())
    if r.random() < 0.15 and exts:
        exts.append(r.choice(exts))          # duplicate
    r.shuffle(exts)
    return exts


def rand_fields(r, level=None):
    level = r.randrange(4) if level is None else level
    method = r.choice(METHODS)
    is_dir = method == b"-lhd-"
    f = E.Fields(level=level, method=method,
                 clen=r.choice([0, 1, 100, 70000, 0xffffffff, r.randrange(2 ** 32)]),
                 length=r.choice([0, 1, 100, 70000, 0xffffffff, r.randrange(2 ** 32)]),
                 crc=r.randrange(65536), os_type=r.choice(OS_TYPES), attr=r.choice([0x20, 0x10, 0]))
    if level in (0, 1):
        f.time = E.dos_time(r.randrange(1980, 2108), r.randrange(0, 16), r.randrange(0, 32), r.randrange(0, 32),
                            r.randrange(0, 64), r.randrange(0, 64)) if r.random() < 0.9 else 0
        nm = rand_name(r, r.choice([1, 8, 30, 100]), b"abcXYZ019._-\\ ")
        if is_dir and r.random() < 0.7:
            nm += b"\\"
        f.name = nm
        if level == 0 and r.random() < 0.4:
            k = r.random()
            if k < 0.5:    # unix area
                f.area = bytes([r.choice([0x55, 0x4b]), 0]) + r.randrange(2 ** 32).to_bytes(4, "little") + \
                    bytes(r.randrange(256) for _ in range(r.choice([0, 0, 4]))) + \
                    r.choice([0o100644, 0o40755, r.randrange(65536)]).to_bytes(2, "little") + \
                    r.randrange(65536).to_bytes(2, "little") + r.randrange(65536).to_bytes(2, "little")
            elif k < 0.8:  # os9 area
                a = bytearray(r.randrange(256) for _ in range(22))
                a[0] = 0x39; a[9] = 0xcc; a[17] = a[1]; a[18] = a[2]
                f.area = bytes(a)
            else:
                f.area = bytes(r.randrange(256) for _ in range(r.randrange(1, 14)))
        if level == 1:
            f.clen = r.choice([0, 5, 1000, 2 ** 31])
            if r.random() < 0.7:
                f.exts = rand_exts(r, 1, want_name=r.random() < 0.3, want_path=None)
                f.common_crc = r.random() < 0.4
    else:
        f.time = r.choice([0, 1, 0x7fffffff, 0xffffffff, r.randrange(2 ** 32)])
        f.exts = rand_exts(r, level, want_name=not is_dir or r.random() < 0.3, want_path=True if is_dir else None)
        f.common_crc = r.random() < 0.5
    if f.common_crc:
        f.common_pos = r.randrange(len(f.exts) + 1)
        f.common_extra = bytes(r.randrange(256) for _ in range(r.choice([0, 0, 0, 3])))
    return f
