"""Header generators shared by the header-level checks (C05, C08, C11, C12, C13)."""
import itertools
from vlib import lhaenc as E

OS_TYPES = [0x00, 0x4d, 0x77, 0x57, 0x55, 0x32, 0x6d, 0x41, 0x61, 0x4a, 0x43, 0x46, 0x52, 0x54, 0x39, 0x4b,
            0x33, 0x48, 0x20]
DOS_LIKE = {0x00, 0x4d, 0x61, 0x20, 0x32}
METHODS = [b"-lh0-", b"-lh1-", b"-lh4-", b"-lh5-", b"-lh6-", b"-lh7-", b"-lhx-", b"-lz4-", b"-lz5-", b"-lzs-",
           b"-pm0-", b"-pm1-", b"-pm2-", b"-lhd-"]


def parse_dump(line):
    """'ok k=v k=v ...' -> dict; None when the parser returned no header."""
    if not line.startswith("ok "):
        return None
    d = {}
    for tok in line.split()[1:]:
        k, _, v = tok.partition("=")
        d[k] = v
    return d


def hexfield(v):
    if v == "~":
        return None
    if v == "-":
        return b""
    return bytes.fromhex(v)


def clean_path_violation(p):
    """None if bytes `p` satisfy the C11 path invariant, else a description."""
    if p is None:
        return None
    q = p[1:] if p[:1] == b"/" else p
    parts = q.split(b"/")
    for comp in parts[:-1]:          # the '/'-terminated components
        if comp in (b"", b".", b".."):
            return "path %r has a '/'-terminated component %r" % (p, comp)
    return None


def name_violation(n):
    if n is not None and b"/" in n:
        return "file name %r contains '/'" % n
    return None


def words(alphabet, maxlen, minlen=0):
    for n in range(minlen, maxlen + 1):
        for t in itertools.product(alphabet, repeat=n):
            yield bytes(t)


def rand_word(r, alphabet, maxlen):
    n = r.randrange(0, maxlen + 1)
    return bytes(r.choice(alphabet) for _ in range(n))


def name_routes(r, s, s2=None):
    """All the ways a stored name/path string `s` can reach the parser.
    Returns list of (route-tag, header bytes)."""
    out = []
    os_t = r.choice(OS_TYPES)
    s2 = s if s2 is None else s2
    # level-0 in-header name (file and directory)
    if len(s) < 200:
        out.append(("l0-name", E.encode(E.Fields(level=0, method=b"-lh0-", name=s))))
        out.append(("l0-dir", E.encode(E.Fields(level=0, method=b"-lhd-", name=s))))
        out.append(("l1-name", E.encode(E.Fields(level=1, method=b"-lh5-", name=s, os_type=os_t))))
        # level-1: in-header name + overriding extended headers
        out.append(("l1-name+ext-path", E.encode(E.Fields(level=1, method=b"-lh5-", name=s, os_type=os_t,
                                                          exts=[(E.EXT_PATH, s2)] if s2 else []))))
        out.append(("l1-name+ext-name", E.encode(E.Fields(level=1, method=b"-lh5-", name=s, os_type=os_t,
                                                          exts=[(E.EXT_FILENAME, s2)] if s2 else []))))
    lvl = r.choice([2, 3])
    if s:
        out.append(("ext-name", E.encode(E.Fields(level=lvl, method=b"-lh5-", os_type=os_t,
                                                  exts=[(E.EXT_FILENAME, s)]))))
        out.append(("ext-path", E.encode(E.Fields(level=lvl, method=b"-lhd-", os_type=os_t,
                                                  exts=[(E.EXT_PATH, s)]))))
        out.append(("ext-name+path", E.encode(E.Fields(level=lvl, method=b"-lh5-", os_type=os_t,
                                                       exts=[(E.EXT_FILENAME, s2 or b"x"), (E.EXT_PATH, s)]))))
        # symlink forms: -lhd- + unix perms 0120777; "name|target" in name, in path, or split
        perm = (E.EXT_PERM, (0o120777).to_bytes(2, "little"))
        out.append(("symlink-name", E.encode(E.Fields(level=lvl, method=b"-lhd-", os_type=0x55,
                                                      exts=[perm, (E.EXT_FILENAME, s)]))))
        out.append(("symlink-path", E.encode(E.Fields(level=lvl, method=b"-lhd-", os_type=0x55,
                                                      exts=[(E.EXT_PATH, s), perm]))))
        out.append(("symlink-split", E.encode(E.Fields(level=lvl, method=b"-lhd-", os_type=os_t,
                                                       exts=[(E.EXT_PATH, s), (E.EXT_FILENAME, s2 or b"x"), perm]))))
        if len(s) < 200:
            out.append(("symlink-l0", E.encode(E.Fields(level=0, method=b"-lhd-", name=s,
                                                        area=bytes([0x55, 0, 0, 0, 0, 0]) + (0o120777).to_bytes(2, "little") + b"\0\0\0\0"))))
    return out
