"""Generated archive trees: directories, files, safe and dangerous symlinks (for C06, C10, C15, C18, C19, C20)."""
from vlib import lhaenc as E
from vlib.lhaenc import crc16

SAFE_NAME = b"abcdefgh01234_-."


class Entry:
    """kind: 'dir' | 'file' | 'link'.  path: bytes with '/' separators, directories end with '/'."""
    def __init__(self, kind, path, data=b"", target=None, perms=None, mtime=0, uid=None, gid=None, method=b"-lh0-",
                 level=2, os_type=0x55):
        self.kind, self.path, self.data, self.target = kind, path, data, target
        self.perms, self.mtime, self.uid, self.gid = perms, mtime, uid, gid
        self.method, self.level, self.os_type = method, level, os_type

    def __repr__(self):
        return "%s(%r%s)" % (self.kind, self.path, (" -> %r" % self.target) if self.target else "")


def rname(r, maxlen=8, alphabet=SAFE_NAME):
    n = r.randrange(1, maxlen + 1)
    s = bytes(r.choice(alphabet) for _ in range(n))
    if s in (b".", b".."):
        s = b"x" + s
    return s


def encode_entry(e, compress=None):
    """header + data for one entry (stored unless `compress(method, data)` returns compressed bytes)"""
    path = e.path
    if e.kind == "dir":
        d, name = path, b""
    else:
        i = path.rfind(b"/")
        d, name = (path[:i + 1], path[i + 1:]) if i >= 0 else (b"", path)
    exts = []
    method = e.method
    data = e.data
    length = len(data)
    crc = crc16(data)
    perms = e.perms
    if e.kind == "dir":
        method, data, length, crc = b"-lhd-", b"", 0, 0
    elif e.kind == "link":
        method, data, length, crc = b"-lhd-", b"", 0, 0
        # "dir/name|target" is split at its LAST '/' into the path and file-name headers (the file-name header
        # cannot carry a separator), the way Unix LHA stores a link whose target has directory components
        full = d + name + b"|" + e.target
        i = full.rfind(b"/")
        d, name = (full[:i + 1], full[i + 1:]) if i >= 0 else (b"", full)
        perms = 0o120777 if perms is None else perms
    elif compress is not None and method not in (b"-lh0-", b"-lz4-", b"-pm0-"):
        data = compress(method, e.data)
    if e.level in (0, 1):
        # in-header name with '\\' separators (level 0: Unix area carries perms/uid/gid/time)
        raw = (d + name).replace(b"/", b"\\") if e.os_type != 0x55 else (d + name)
        f = E.Fields(level=e.level, method=method, clen=len(data), length=length, crc=crc, os_type=e.os_type,
                     name=raw, time=E.dos_time(1980 + (e.mtime // 31557600) % 100, 6, 15, 12, 0, 0) if e.mtime else 0)
        if e.level == 0 and perms is not None:
            f.area = bytes([0x55, 0]) + (e.mtime & 0xffffffff).to_bytes(4, "little") + (perms & 0xffff).to_bytes(2, "little") + \
                ((e.uid or 0) & 0xffff).to_bytes(2, "little") + ((e.gid or 0) & 0xffff).to_bytes(2, "little")
        if e.level == 1:
            if perms is not None:
                f.exts.append((E.EXT_PERM, (perms & 0xffff).to_bytes(2, "little")))
            if e.uid is not None:
                f.exts.append((E.EXT_UIDGID, ((e.gid or 0) & 0xffff).to_bytes(2, "little") + (e.uid & 0xffff).to_bytes(2, "little")))
            if e.mtime:
                f.exts.append((E.EXT_UTIME, (e.mtime & 0xffffffff).to_bytes(4, "little")))
        return E.encode(f) + data
    f = E.Fields(level=e.level, method=method, clen=len(data), length=length, crc=crc, os_type=e.os_type, time=e.mtime)
    if name:
        f.exts.append((E.EXT_FILENAME, name))
    if d:
        f.exts.append((E.EXT_PATH, d.replace(b"/", b"\xff")))
    if perms is not None:
        f.exts.append((E.EXT_PERM, (perms & 0xffff).to_bytes(2, "little")))
    if e.uid is not None:
        f.exts.append((E.EXT_UIDGID, ((e.gid or 0) & 0xffff).to_bytes(2, "little") + (e.uid & 0xffff).to_bytes(2, "little")))
    f.common_crc = True
    return E.encode(f) + data


def encode_archive(entries, compress=None, trailer=b"\0"):
    return b"".join(encode_entry(e, compress) for e in entries) + trailer


def rand_tree(r, maxdepth=3, nfiles=6, dangerous=0.0, safe_links=0.2, levels=(2,), readonly_dirs=0.2, methods=(b"-lh0-",)):
    """directory-first tree: each directory entry is followed contiguously by its contents"""
    entries = []
    t0 = 1_000_000_000

    def mt():
        # mostly 2001-2004; sometimes the 32-bit boundary values (2038-01-19 and beyond, up to 2106)
        if r.random() < 0.12:
            return r.choice([0x7fffffff, 0x80000000, 0x80000001, 0xf0000000, 0xfffffffd, 4102444800, 1])   # (0xfffffffe is the file-system model's marker for "time of the run")
        return t0 + r.randrange(10 ** 8)

    def fill(prefix, depth, budget):
        used = set()
        n = r.randrange(1, max(2, budget))
        for _ in range(n):
            nm = rname(r)
            if used and r.random() < 0.25:
                # sibling names that are proper prefixes of one another (a/ ab/ a.bak/): the reader's "still inside the directory
                # on top of the stack?" test compares path prefixes
                nm = r.choice(sorted(used)) + r.choice([b"b", b"2", b".bak", b"_", b"-"])
            if nm in used:
                continue
            used.add(nm)
            k = r.random()
            lvl = r.choice(levels)
            if k < 0.3 and depth < maxdepth:
                perms = r.choice([0o40755, 0o40700, 0o40555 if r.random() < readonly_dirs else 0o40755, 0o40750])
                entries.append(Entry("dir", prefix + nm + b"/", perms=perms, mtime=mt(), level=lvl))
                fill(prefix + nm + b"/", depth + 1, max(1, budget // 2))
            elif k < 0.3 + safe_links:
                tgt = r.choice([rname(r), b"./" + rname(r), rname(r) + b"/" + rname(r),
                                # relative, no '..' COMPONENT, but components that merely begin or end with dots
                                b"..data/" + rname(r), b".../" + rname(r), rname(r) + b"/..x/" + rname(r), b"..a", rname(r) + b"/...",
                                b"a../" + rname(r), rname(r) + b"/",
                                # last component of two characters beginning with a dot, a lone dot-name: NOT "..", so harmless
                                b".x", b".a", rname(r) + b"/.c", b"./.z", b"..."])
                entries.append(Entry("link", prefix + nm, target=tgt, level=lvl))
            elif k < 0.3 + safe_links + dangerous:
                tgt = r.choice([b"/tmp/" + rname(r), b"../" + rname(r), b"../../" + rname(r), rname(r) + b"/../../" + rname(r), b"/"])
                entries.append(Entry("link", prefix + nm, target=tgt, level=lvl))
            else:
                data = bytes(r.randrange(256) for _ in range(r.choice([0, 1, 10, 100, 1500])))
                entries.append(Entry("file", prefix + nm, data=data, perms=r.choice([0o100644, 0o100600, 0o100755, 0o100444, None]),
                                     mtime=mt(), method=r.choice(methods), level=lvl))
    fill(b"", 0, nfiles)
    return entries
