"""Independent PARSER of real LHA file headers (levels 0-3) into the typed-field description language of `Spec.HeaderEnc`
(ops `hdrenc` / `hdrnorm`), used as tie (c) for C05: headers written by ~20 historical archivers are parsed here,
re-encoded by the Lean specification, and must come back byte for byte."""

KNOWN_MIN = {0x00: 2, 0x01: 1, 0x02: 1, 0x41: 24, 0x50: 2, 0x51: 4, 0x52: 1, 0x53: 1, 0x54: 4, 0xcc: 12}


def hx(b):
    return bytes(b).hex() or "-"


def le(b):
    return int.from_bytes(b, "little")


def ext_text(t, d):
    """typed extended header, or O<type>.<hex> when unknown / too short to decode"""
    if t not in KNOWN_MIN or len(d) < KNOWN_MIN[t]:
        return "O%d.%s" % (t, hx(d))
    if t == 0x00:
        return "C" + hx(d[2:])
    if t == 0x01:
        return "N" + hx(d)
    if t == 0x02:
        return "P" + hx(d)
    if t == 0x41:
        return "W%d.%d.%d.%s" % (le(d[0:8]), le(d[8:16]), le(d[16:24]), hx(d[24:]))
    if t == 0x50:
        return "U%d.%s" % (le(d[0:2]), hx(d[2:]))
    if t == 0x51:
        return "I%d.%d.%s" % (le(d[0:2]), le(d[2:4]), hx(d[4:]))
    if t == 0x52:
        return "G" + hx(d)
    if t == 0x53:
        return "S" + hx(d)
    if t == 0x54:
        return "T%d.%s" % (le(d[0:4]), hx(d[4:]))
    return "9" + hx(d)


def walk_chain(buf, off, first, fs):
    """buf[off:] = chain after the first size field; returns (list of ext texts, end offset)"""
    exts = []
    size = first
    while size != 0:
        if size < fs + 1 or off + size > len(buf):
            raise ValueError("bad chain")
        t = buf[off]
        d = buf[off + 1: off + size - fs]
        exts.append(ext_text(t, d))
        nxt = le(buf[off + size - fs: off + size])
        off += size
        size = nxt
    return exts, off


def parse(buf):
    """buf: archive bytes starting at a header. Returns (fields text, header length, data length clen as seen by the caller)"""
    lvl = buf[20]
    method = buf[2:7]
    clen_f, length, time = le(buf[7:11]), le(buf[11:15]), le(buf[15:19])
    attr = buf[19]
    items = ["L%d" % lvl, "M" + hx(method), "l%d" % length, "t%d" % time, "a%d" % attr]
    if lvl in (0, 1):
        hlen = buf[0]
        nlen = buf[21]
        name = buf[22:22 + nlen]
        crc = le(buf[22 + nlen:24 + nlen])
        items += ["n" + hx(name), "r%d" % crc]
        if lvl == 0:
            area = buf[24 + nlen: 2 + hlen]
            items.append("c%d" % clen_f)
            if area:
                a = area
                if a[0] in (0x55, 0x4b) and len(a) >= 12 and a[1] == 0:
                    items.append("Au%d.%d.%s.%d.%d.%d" % (a[0], le(a[2:6]), hx(a[6:len(a) - 6]), le(a[-6:-4]), le(a[-4:-2]), le(a[-2:])))
                elif a[0] == 0x39 and len(a) >= 22 and a[9] == 0xcc and a[1] == a[17] and a[2] == a[18]:
                    items.append("A9" + hx(a))
                else:
                    items.append("Ar" + hx(a))
            return ";".join(items), 2 + hlen, clen_f
        os_t = buf[24 + nlen]
        pad = buf[25 + nlen: hlen]            # up to the 2-byte first-size field that ends the base header
        first = le(buf[hlen:hlen + 2])
        exts, end = walk_chain(buf, hlen + 2, first, 2)
        chain_len = end - (hlen + 2)
        items += ["o%d" % os_t, "p" + hx(pad), "c%d" % (clen_f - chain_len), "X" + "|".join(exts)]
        return ";".join(items), end, clen_f - chain_len
    crc = le(buf[21:23])
    os_t = buf[23]
    items += ["r%d" % crc, "o%d" % os_t, "c%d" % clen_f]
    if lvl == 2:
        first = le(buf[24:26])
        exts, end = walk_chain(buf, 26, first, 2)
        total = le(buf[0:2]) + (2 if os_t == 0x4b else 0)
    elif lvl == 3:
        first = le(buf[28:32])
        exts, end = walk_chain(buf, 32, first, 4)
        total = le(buf[24:28])
    else:
        raise ValueError("level")
    items.append("X" + "|".join(exts))
    if total > end:
        items.append("z" + hx(buf[end:total]))      # bytes inside the header after the chain terminator (padding)
        end = total
    return ";".join(items), end, clen_f
