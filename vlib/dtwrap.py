"""Wrapper that turns a stand-alone differential test script (tools/difftest_*.py: builds the C harness / tool from /repo,
runs C, Lean model and Lean spec on generated inputs, prints `difftest_x: <n> cases, <k> mismatches` and
`MISMATCH <name> [...]` blocks with `   - <problem>` lines) into the evaluate() of a property module."""
import os, re, subprocess, sys
from vlib import core
from vlib.core import Case

C_SIDE = re.compile(r"^(C vs|C:|C decoder|C output|real tool|lha |tool)", re.I)


def run_script(script, ctx, scale, extra_env=None, timeout=3000):
    e = dict(os.environ)
    e["VERIF_SEED"] = str(ctx.seed)
    e["DIFFTEST_SCALE"] = str(scale)
    if extra_env:
        e.update(extra_env)
    r = subprocess.run([sys.executable, os.path.join(core.VERIF, "tools", script)], cwd=core.VERIF, capture_output=True,
                       text=True, env=e, timeout=timeout)
    out = r.stdout + "\n" + r.stderr
    m = re.search(r"difftest_\w+: (\d+) cases, (\d+) mismatches", out)
    ncases = int(m.group(1)) if m else 0
    nmis = int(m.group(2)) if m else -1
    blocks = []
    cur = None
    for line in out.split("\n"):
        if line.startswith("MISMATCH"):
            cur = {"name": line[9:].strip(), "lines": []}
            blocks.append(cur)
        elif cur is not None and line.startswith("   "):
            cur["lines"].append(line.strip())
        elif cur is not None and line.strip() == "":
            cur = None
    return {"rc": r.returncode, "ncases": ncases, "nmis": nmis, "blocks": blocks, "tail": out[-3000:], "summary": m.group(0) if m else ""}


def evaluate_with(script, prop_id, quick_scale=0.25, thorough_scale=1.0, extra_env=None, concrete_kinds=()):
    """concrete_kinds: MISMATCH block kinds in which the Lean side IS the property's reference (e.g. the reference rendering of
    C19): there a difference between the real tool and the Lean result is a violation with the printed input as replay."""
    def evaluate(ctx, env, cases, with_model):
        scale = quick_scale if ctx.tier == "quick" else thorough_scale
        if not with_model:           # the search phase: a larger run at another seed
            scale *= 4
        res = run_script(script, ctx, scale, extra_env)
        ctx.say("[difftest] %s scale=%s: %s (rc=%d)" % (script, scale, res["summary"], res["rc"]))
        ctx.extra.setdefault("difftest_runs", []).append({"script": script, "scale": scale, "summary": res["summary"]})
        ctx.extra["dt_cases"] = ctx.extra.get("dt_cases", 0) + res["ncases"]
        ctx.extra["dt_samples"] = [l for l in res["tail"].split("\n") if l.strip()][-12:]
        conc, corr = [], []
        if res["nmis"] < 0:
            corr.append({"op": script, "c_out": "", "why": "differential test script did not complete", "model_out": res["tail"][-1500:]})
        for b in res["blocks"]:
            probs = [l[2:] if l.startswith("- ") else l for l in b["lines"]]
            rec = {"op": b["name"], "c_out": "; ".join(probs)[:1500], "tags": [prop_id], "details": b["lines"][:12]}
            kind = b["name"].split()[0] if b["name"] else ""
            if kind in concrete_kinds:
                rec["why"] = "output of the real tool differs from the reference (%s): %s" % (kind, b["name"][:200])
                rec["sig"] = "difftest:" + kind
                conc.append(rec)
            elif any(C_SIDE.match(p) for p in probs):
                rec["why"] = "implementation result differs from the specification: " + "; ".join(p for p in probs if C_SIDE.match(p))[:300]
                rec["sig"] = "difftest:" + re.sub(r"[^a-zA-Z]+", "-", probs[0])[:40]
                conc.append(rec)
            else:
                rec["why"] = "model / specification / generator disagreement: " + "; ".join(probs)[:300]
                corr.append(rec)
        if res["nmis"] > 0 and not res["blocks"]:
            corr.append({"op": script, "c_out": res["tail"][-1500:], "why": "mismatches reported without details"})
        return conc, corr, {"evaluations": res["ncases"]}
    return evaluate


def one_case(label):
    return [Case("difftest " + label, tags={"difftest"})]
