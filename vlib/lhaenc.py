"""Archive/header encoder used by the generators (python side).

Builds level 0-3 LHA headers from typed fields.  `Fields` is deliberately
permissive: every length/checksum can be overridden so that the same code
produces the malformed variants as well.
"""
import struct

def crc16(data, crc=0):
    for b in data:
        crc ^= b
        for _ in range(8):
            crc = (crc >> 1) ^ 0xA001 if crc & 1 else crc >> 1
    return crc

EXT_COMMON, EXT_FILENAME, EXT_PATH = 0x00, 0x01, 0x02
EXT_WINTIME, EXT_PERM, EXT_UIDGID, EXT_GROUP, EXT_USER, EXT_UTIME, EXT_OS9 = 0x41, 0x50, 0x51, 0x52, 0x53, 0x54, 0xcc


def dos_time(y, mo, d, h, mi, s):
    return ((y - 1980) << 25) | (mo << 21) | (d << 16) | (h << 11) | (mi << 5) | (s >> 1)


class Fields:
    def __init__(self, level=0, method=b"-lh0-", clen=0, length=0, time=0, crc=0, os_type=0x4d,
                 name=b"", exts=(), area=b"", attr=0x20, common_crc=False, common_extra=b""):
        self.level, self.method, self.clen, self.length = level, method, clen, length
        self.time, self.crc, self.os_type, self.name = time, crc, os_type, name
        self.exts = list(exts)          # [(type, data bytes)]
        self.area = area                # level-0 extended area / level-1 extra bytes before next-size
        self.attr = attr
        self.common_crc = common_crc    # add a common header (type 0) with the right CRC
        self.common_extra = common_extra
        self.common_pos = 0             # index in exts where the common header is inserted

    def copy(self):
        f = Fields.__new__(Fields)
        f.__dict__.update(self.__dict__)
        f.exts = list(self.exts)
        return f


def _chain(exts, fs, first_in_base):
    """Returns (first_size, chain bytes). Each ext header: type, data, next_size."""
    sizes = [len(d) + 1 + fs for (_, d) in exts]
    out = b""
    for i, (t, d) in enumerate(exts):
        nxt = sizes[i + 1] if i + 1 < len(exts) else 0
        out += bytes([t]) + d + nxt.to_bytes(fs, "little")
    return (sizes[0] if sizes else 0), out


def encode(f):
    """bytes of the header (not including member data)."""
    exts = list(f.exts)
    if f.common_crc:
        exts.insert(min(f.common_pos, len(exts)), (EXT_COMMON, b"\0\0" + f.common_extra))
    lvl = f.level
    if lvl == 0:
        body = f.method + struct.pack("<III", f.clen & 0xffffffff, f.length & 0xffffffff, f.time & 0xffffffff)
        body += bytes([f.attr, 0, len(f.name) & 0xff]) + f.name + struct.pack("<H", f.crc) + f.area
        hdr = bytes([len(body) & 0xff, sum(body) & 0xff]) + body
        return hdr
    if lvl == 1:
        first, chain = _chain(exts, 2, True)
        clen = f.clen + len(chain)
        body = f.method + struct.pack("<III", clen & 0xffffffff, f.length & 0xffffffff, f.time & 0xffffffff)
        body += bytes([f.attr, 1, len(f.name) & 0xff]) + f.name + struct.pack("<H", f.crc)
        body += bytes([f.os_type]) + f.area + struct.pack("<H", first)
        hdr = bytearray(bytes([len(body) & 0xff, 0]) + body + chain)
        if f.common_crc:
            _fix_common(hdr, len(body) + 2 - 2, exts, 2)
        hdr[1] = sum(hdr[2:2 + len(body)]) & 0xff
        if f.common_crc:
            # checksum byte is part of the CRC'd data: iterate to a fixed point
            for _ in range(4):
                _fix_common(hdr, len(body), exts, 2)
                hdr[1] = sum(hdr[2:2 + len(body)]) & 0xff
        return bytes(hdr)
    if lvl == 2:
        first, chain = _chain(exts, 2, True)
        total = 26 + len(chain)
        quirk = 2 if f.os_type == 0x4b else 0
        base = struct.pack("<H", (total - quirk) & 0xffff) + f.method
        base += struct.pack("<III", f.clen & 0xffffffff, f.length & 0xffffffff, f.time & 0xffffffff)
        base += bytes([f.attr, 2]) + struct.pack("<H", f.crc) + bytes([f.os_type]) + struct.pack("<H", first)
        hdr = bytearray(base + chain)
        if f.common_crc:
            _fix_common(hdr, 24, exts, 2)
        return bytes(hdr)
    if lvl == 3:
        first, chain = _chain(exts, 4, True)
        total = 32 + len(chain)
        base = struct.pack("<H", 4) + f.method
        base += struct.pack("<III", f.clen & 0xffffffff, f.length & 0xffffffff, f.time & 0xffffffff)
        base += bytes([f.attr, 3]) + struct.pack("<H", f.crc) + bytes([f.os_type])
        base += struct.pack("<II", total, first)
        hdr = bytearray(base + chain)
        if f.common_crc:
            _fix_common(hdr, 28, exts, 4)
        return bytes(hdr)
    raise ValueError("level")


def _fix_common(hdr, first_size_off, exts, fs):
    """write the CRC of the whole header (CRC field zero) into the first common header."""
    off = first_size_off + fs
    for (t, d) in exts:
        if t == EXT_COMMON:
            hdr[off + 1] = 0
            hdr[off + 2] = 0
            c = crc16(hdr)
            hdr[off + 1] = c & 0xff
            hdr[off + 2] = c >> 8
            return
        off += len(d) + 1 + fs


def member(f, data):
    """header + stored/compressed data; sets clen from data."""
    g = f.copy()
    g.clen = len(data)
    return encode(g) + data
