"""Run the real `lha` tool in a private directory tree and describe the resulting tree in the
same canonical form as the Lean model's `xrun` op (vlib: C06, C10)."""
import os, time, stat, shutil, subprocess, tempfile
from vlib import core
from vlib.lhaenc import crc16

NOBODY = 65534


def hexs(b):
    return b.hex() or "-"


def make_world(base, pre, uid=None):
    """base/root (cwd of the run), base/outside/canary, base/outside/sub/ (0700); pre: list of (kind, relpath bytes, payload)"""
    root = os.path.join(base, b"root")
    outside = os.path.join(base, b"outside")
    os.mkdir(root)
    os.mkdir(outside)
    with open(os.path.join(outside, b"canary"), "wb") as f:
        f.write(b"canary")
    os.mkdir(os.path.join(outside, b"sub"))            # a directory whose mode and time a misdirected chmod / utime would change
    made = [root, outside, os.path.join(outside, b"canary"), os.path.join(outside, b"sub")]
    for kind, rel, payload in pre:
        p = os.path.join(root, rel)
        os.makedirs(os.path.dirname(p), exist_ok=True)
        if kind == "d":
            os.makedirs(p, exist_ok=True)
            os.chmod(p, payload)
        elif kind == "f":
            with open(p, "wb") as f:
                f.write(payload)
            os.chmod(p, 0o644)
        elif kind == "l":
            os.symlink(payload, p)
        made.append(p)
    os.chmod(os.path.join(outside, b"sub"), 0o700)
    for p in made:
        if not os.path.islink(p):
            os.utime(p, (1000, 1000))
    os.utime(root, (1000, 1000))
    if uid is not None:
        for dp, dn, fn in os.walk(base):
            for n in [dp] + [os.path.join(dp, x) for x in dn + fn]:
                try:
                    os.lchown(n, uid, uid)
                except OSError:
                    pass
    return root


def describe(base, t_start, skip=(b"a.lzh",)):
    """canonical listing: /comp/comp=desc;…  sorted like the model's"""
    items = []

    def walk(d, comps):
        for name in sorted(os.listdir(d)):
            if not comps and name in skip:
                continue
            p = os.path.join(d, name)
            st = os.lstat(p)
            key = "/" + "/".join(hexs(c) for c in comps + [name])
            mt = "NOW" if t_start - 1 <= st.st_mtime <= time.time() + 2 else str(int(st.st_mtime))   # recorded times may lie in the future
            if stat.S_ISLNK(st.st_mode):
                items.append((key, "l" + hexs(os.readlink(p))))
            elif stat.S_ISDIR(st.st_mode):
                items.append((key, "d%o,%s" % (stat.S_IMODE(st.st_mode), mt)))
                try:
                    walk(p, comps + [name])
                except PermissionError:
                    old = st.st_mode
                    os.chmod(p, 0o700)
                    walk(p, comps + [name])
                    os.chmod(p, stat.S_IMODE(old))
            else:
                try:
                    data = open(p, "rb").read()
                except PermissionError:
                    os.chmod(p, 0o600); data = open(p, "rb").read(); os.chmod(p, stat.S_IMODE(st.st_mode))
                items.append((key, "f%o,%s,%d,%04x" % (stat.S_IMODE(st.st_mode), mt, len(data), crc16(data))))
    walk(base, [])
    items.sort(key=lambda x: x[0])
    return ";".join(k + "=" + v for k, v in items)


def run_extract(lha, tmpdir, archive, opt_tokens, pre=(), answers=b"", as_root=True, cmd="x", timeout=60, extra_args=()):
    """returns dict(rc, listing, stdout, stderr, verdict, abs_prefix)"""
    base = tempfile.mkdtemp(prefix="sbx-", dir=tmpdir).encode()
    os.chmod(base, 0o755)
    try:
        root = make_world(base, pre, None if as_root else NOBODY)
        ap = os.path.join(base, b"a.lzh")
        with open(ap, "wb") as f:
            f.write(archive(base) if callable(archive) else archive)
        if not as_root:
            os.chown(ap, NOBODY, NOBODY)
        arg = cmd
        for t in opt_tokens:
            if t.startswith("w"):
                arg += "w=" + bytes.fromhex(t[1:]).decode("latin1")
            else:
                arg += t
        t_start = time.time()
        os.utime(root, (1000, 1000))
        os.utime(base, (1000, 1000))
        base_before = os.lstat(base)

        def pre_fn():
            os.umask(0o022)
            if not as_root:
                os.setgroups([])
                os.setgid(NOBODY)
                os.setuid(NOBODY)
        e = dict(os.environ); e.update(core.SAN_ENV); e.update({"TZ": "UTC", "LC_ALL": "C"})
        try:
            r = subprocess.run([lha, arg.encode("latin1"), b"../a.lzh"] + list(extra_args), cwd=root, input=answers, capture_output=True, env=e,
                               timeout=timeout, preexec_fn=pre_fn)
            rc, so, se = r.returncode, r.stdout, r.stderr.decode(errors="replace")
            verdict = "ok"
            if rc in (98, 99) or rc < 0 or "Sanitizer" in se or "runtime error" in se:
                verdict = core.summarize_crash(rc, se)
        except subprocess.TimeoutExpired:
            rc, so, se, verdict = -999, b"", "", "TIMEOUT"
        base_after = os.lstat(base)
        base_changed = None
        if (stat.S_IMODE(base_before.st_mode), int(base_before.st_mtime), base_before.st_uid) != \
           (stat.S_IMODE(base_after.st_mode), int(base_after.st_mtime), base_after.st_uid):
            base_changed = "mode %o -> %o, mtime %d -> %d, uid %d -> %d" % (
                stat.S_IMODE(base_before.st_mode), stat.S_IMODE(base_after.st_mode), int(base_before.st_mtime),
                int(base_after.st_mtime), base_before.st_uid, base_after.st_uid)
            os.chmod(base, 0o755)
        return {"rc": rc, "listing": describe(base, t_start), "stdout": so, "stderr": se, "verdict": verdict,
                "abs_prefix": base, "base_changed": base_changed}
    finally:
        # restore permissions so that the tree can be removed
        for dp, dn, fn in os.walk(base):
            try:
                os.chmod(dp, 0o700)
            except OSError:
                pass
        shutil.rmtree(base, ignore_errors=True)
