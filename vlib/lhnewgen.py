"""Generator of well-formed static-Huffman (-lh4- … -lh7-, -lhx-, -lk7-) stream DESCRIPTIONS for C01.

The description (blocks; per block the three length tables in their transmitted form and the commands) is
turned into bytes by the Lean specification `Spec.LhNewEnc.serialise` (op `lhnser`) — this file never emits
bits.  It chooses, at random but stratified: commands, block partition, length tables (Huffman of the block's
histogram, forced deep tables, random complete tables with unused symbols, the single-code form), the zero-run
form of every run of unused symbols, the temp table's skip field, trailing table entries, overshooting final
runs, LHark's two codes for a 514-byte copy.
"""
import heapq

FMT = {  # meth: (offsetBits, numCodes, maxOffsetCodes, ringSize, lhark)   (mirrors Gen; used only to stay inside the valid domain)
    "lh4": (4, 510, 15, 1 << 14, False), "lh5": (4, 510, 15, 1 << 14, False),
    "lh6": (5, 510, 31, 1 << 16, False), "lh7": (5, 510, 31, 1 << 17, False),
    "lhx": (5, 510, 31, 1 << 20, False), "lk7": (6, 289, 63, 1 << 16, True),
}
# distances a conventional encoder of the method would use (window of the format)
WINDOW = {"lh4": 4096, "lh5": 8192, "lh6": 32768, "lh7": 65536, "lhx": 1 << 20, "lk7": 65536}


def len_sym(lhark, n, alt=False):
    if not lhark or n < 11:
        return 256 + n - 3
    if alt:
        return 288
    v = n - 3
    k = v.bit_length() - 1 - 2
    return 260 + 4 * k + ((v >> k) - 4)


def off_sym(lhark, d):
    if not lhark:
        return d if d < 2 else d.bit_length()
    if d < 4:
        return d
    k = d.bit_length() - 2
    return 2 + 2 * k + ((d >> k) - 2)


def huffman_lengths(hist):
    """hist: dict sym -> weight (>0). Returns dict sym -> length; needs >= 2 symbols."""
    h = [(w, i, (s,)) for i, (s, w) in enumerate(sorted(hist.items()))]
    heapq.heapify(h)
    lens = {s: 0 for s in hist}
    cnt = len(h)
    while len(h) > 1:
        a = heapq.heappop(h)
        b = heapq.heappop(h)
        for s in a[2] + b[2]:
            lens[s] += 1
        cnt += 1
        heapq.heappush(h, (a[0] + b[0], cnt, a[2] + b[2]))
    return lens


def kraft_ok(lens):
    L = max(lens)
    return L >= 1 and sum(1 << (L - l) for l in lens if l > 0) == (1 << L)


def limit_lengths(lens, L):
    """lens: dict sym->len (complete). Returns a complete assignment with max length <= L (or None)."""
    if max(lens.values()) <= L:
        return lens
    if len(lens) > (1 << L):
        return None
    ls = {s: min(l, L) for s, l in lens.items()}
    K = sum(1 << (L - l) for l in ls.values())
    full = 1 << L
    order = sorted(ls, key=lambda s: -ls[s])
    guard = 0
    while K > full and guard < 100000:
        guard += 1
        cand = [s for s in order if ls[s] < L]
        if not cand:
            return None
        s = max(cand, key=lambda s: ls[s])
        K -= 1 << (L - ls[s] - 1)
        ls[s] += 1
    while K < full and guard < 200000:
        guard += 1
        d = full - K
        cand = [s for s in ls if ls[s] > 1 and (1 << (L - ls[s])) <= d]
        if not cand:
            return None
        s = min(cand, key=lambda s: ls[s])
        K += 1 << (L - ls[s])
        ls[s] -= 1
    return ls if K == full else None


def random_complete(r, syms, maxlen):
    """a random complete prefix code over exactly `syms` (>= 2), built by splitting leaves"""
    leaves = [1, 1]
    while len(leaves) < len(syms):
        cand = [i for i, l in enumerate(leaves) if l < maxlen]
        if not cand:
            return None
        i = r.choice(cand) if r.random() < 0.5 else max(cand, key=lambda i: leaves[i])
        l = leaves.pop(i)
        leaves += [l + 1, l + 1]
    r.shuffle(leaves)
    return dict(zip(syms, leaves))


def table_for(r, used_hist, universe, maxlen, style):
    """choose a table covering the used symbols. Returns ('s', c) or ('l', dict sym->len)"""
    used = sorted(used_hist)
    if style == "single" or (len(used) <= 1 and r.random() < 0.6):
        if len(used) == 0:
            return ("s", r.randrange(universe))
        if len(used) == 1:
            return ("s", used[0])
    hist = dict(used_hist)
    # unused-but-coded symbols
    extra = 0
    if len(hist) < 2:
        extra = 2 - len(hist)
    if style == "extra":
        extra += r.choice([1, 2, 5, 17])
    tries = 0
    while extra > 0 and tries < 1000:
        tries += 1
        s = r.randrange(universe)
        if s not in hist:
            hist[s] = 1
            extra -= 1
    if style == "deep":
        # Fibonacci-like weights: maximal depth
        a, b = 1, 1
        for s in sorted(hist, key=lambda s: r.random()):
            hist[s] = a
            a, b = b, a + b
    if style == "random":
        lens = random_complete(r, sorted(hist), maxlen)
        if lens:
            return ("l", lens)
    lens = huffman_lengths(hist)
    lens = limit_lengths(lens, maxlen)
    if lens is None:
        lens = limit_lengths(huffman_lengths({s: 1 for s in hist}), maxlen)
    return ("l", lens)


def tokenise(r, lens_list, n_declared, numcodes, overshoot):
    """lens_list: list of n_declared lengths. Returns token strings; zero runs split at random"""
    toks = []
    i = 0
    n = n_declared
    while i < n:
        if lens_list[i] != 0:
            toks.append(str(lens_list[i]))
            i += 1
            continue
        j = i
        while j < n and lens_list[j] == 0:
            j += 1
        run = j - i
        last_run = (j == n)
        while run > 0:
            opts = ["a"]
            if run >= 3:
                opts.append("b")
            if run >= 20:
                opts += ["c", "c"]
            if run > 40:
                opts += ["c"] * 4
            o = r.choice(opts)
            if o == "a":
                toks.append("a"); run -= 1
            elif o == "b":
                k = r.choice([3, min(run, 18), r.randrange(3, min(run, 18) + 1)])
                toks.append("b%d" % k); run -= k
            else:
                k = r.choice([20, min(run, 531), r.randrange(20, min(run, 531) + 1)])
                toks.append("c%d" % k); run -= k
        if last_run and overshoot and toks and toks[-1][0] in "bc":
            # let the final run claim more entries than remain (the decoder clamps it)
            t = toks[-1]
            k = int(t[1:])
            hi = 18 if t[0] == "b" else 531
            if k < hi:
                toks[-1] = t[0] + str(r.randrange(k + 1, hi + 1))
        i = j
    return toks


TOK_SYM = {"a": 0, "b": 1, "c": 2}


def tok_sym(t):
    return TOK_SYM[t[0]] if t[0] in TOK_SYM else int(t) + 2


def lens_dict_to_list(d, n):
    return [d.get(i, 0) for i in range(n)]


def gen_cmds(r, meth, ncmd, produced, profile):
    ob, nc, moc, ring, lhark = FMT[meth]
    win = WINDOW[meth]
    maxlen = 514 if lhark else 256
    cmds = []
    alphabet = [r.randrange(256) for _ in range(r.choice([1, 2, 4, 16, 64, 256]))]
    for _ in range(ncmd):
        k = r.random()
        if profile == "lits" or k < {"mixed": 0.55, "sparse": 0.97}.get(profile, 0.15):
            b = r.choice(alphabet)
            cmds.append("L%02x" % b)
            produced += 1
            continue
        kk = r.random()
        if kk < 0.3:
            n = r.randrange(3, min(maxlen, 12) + 1)
        elif kk < 0.5:
            n = r.choice([3, 4, 10, 11, 12, 18, 19, 255, 256] + ([257, 258, 450, 451, 513, 514] if lhark else []))
        else:
            n = r.randrange(3, maxlen + 1)
        kd = r.random()
        if kd < 0.15:
            d = r.choice([0, 1, 2, 3, 4, 5, 7, 8])
        elif kd < 0.4:
            d = r.randrange(0, 64)
        elif kd < 0.5 and produced > 0:
            d = produced - 1                      # the first byte ever produced
        elif kd < 0.6:
            d = min(produced, ring - 1)           # just into the pre-filled window
        elif kd < 0.7:
            d = ring - 1 - r.randrange(0, 3)      # the whole ring
        elif kd < 0.8:
            d = (1 << r.randrange(1, ring.bit_length() - 1)) - r.randrange(0, 2)   # powers of two and one below
        elif kd < 0.9:
            d = r.randrange(0, win)
        else:
            d = r.randrange(0, ring)
        d = max(0, min(d, ring - 1))
        alt = lhark and n == 514 and r.random() < 0.5
        cmds.append(("A%d" % d) if alt else ("C%d.%d" % (d, n)))
        produced += n
    return cmds, produced


def gen_block(r, meth, cmds, styles):
    ob, nc, moc, ring, lhark = FMT[meth]
    chist, ohist = {}, {}
    for c in cmds:
        if c[0] == "L":
            s = int(c[1:], 16)
            chist[s] = chist.get(s, 0) + 1
        else:
            if c[0] == "A":
                d, n, alt = int(c[1:]), 514, True
            else:
                d, n = map(int, c[1:].split("."))
                alt = False
            s = len_sym(lhark, n, alt)
            chist[s] = chist.get(s, 0) + 1
            o = off_sym(lhark, d)
            ohist[o] = ohist.get(o, 0) + 1
    cs, os_, ts = styles
    maxcl = r.choice([16, 16, 16, 12, 28 if cs == "deep" else 16])
    ct = table_for(r, chist, nc, maxcl, cs)
    ot = table_for(r, ohist, moc, r.choice([16, 16, 8, 30]) if os_ != "deep" else 30, os_)
    # offset table text
    if ot[0] == "s":
        off_txt = "s%d" % ot[1]
    else:
        hi = max(ot[1]) + 1
        n_off = r.choice([hi, hi, moc, r.randrange(hi, moc + 1)])
        off_txt = "l" + ".".join(map(str, lens_dict_to_list(ot[1], n_off)))
    # code table text
    if ct[0] == "s":
        code_txt = "s%d" % ct[1]
        thist = {}
    else:
        hi = max(ct[1]) + 1
        n_code = r.choice([hi, hi, nc, r.randrange(hi, nc + 1)])
        ll = lens_dict_to_list(ct[1], n_code)
        overshoot = r.random() < 0.15
        toks = tokenise(r, ll, n_code, nc, overshoot)
        code_txt = "n%d:%s" % (n_code, ".".join(toks))
        thist = {}
        for t in toks:
            thist[tok_sym(t)] = thist.get(tok_sym(t), 0) + 1
    # temp table
    tt = table_for(r, thist, 19, r.choice([16, 7, 6, 30]) if ts != "deep" else 30, ts)
    if tt[0] == "s":
        temp_txt = "s%d" % tt[1]
    else:
        hi = max(tt[1]) + 1
        n_t = r.choice([hi, hi, 31, r.randrange(hi, 32)])
        tl = lens_dict_to_list(tt[1], n_t)
        skip = 0
        if n_t >= 3:
            z = 0
            while z < 3 and 3 + z < n_t and tl[3 + z] == 0:
                z += 1
            skip = r.choice([0, z, r.randrange(0, z + 1)])
        temp_txt = "l%sk%d" % (".".join(map(str, tl)), skip)
    return "%s;%s;%s;%s" % (temp_txt, code_txt, off_txt, ",".join(cmds) or "-")


STYLES = ["huff", "huff", "huff", "extra", "deep", "random", "single"]


def gen_ringend(r, meth, exact=False):
    """a copy whose LAST byte lands in the last slot of the history ring (the write position wraps to 0 exactly at the end of the
    command), one byte earlier and one byte later; then a few more bytes and copies that look back across the seam"""
    ob, nc, moc, ring, lhark = FMT[meth]
    cmds, produced = gen_cmds(r, meth, 40, 0, "mixed")
    delta = 0 if exact else r.choice([0, 0, 0, -1, 1])          # exact: the run of distance 1 ends in the very last slot (not left to chance)
    turns = r.choice([1, 1, 2]) if ring <= (1 << 16) else 1
    goal = turns * ring + delta
    while produced < goal - 900:
        more, produced = gen_cmds(r, meth, 1, produced, "copies")
        cmds += more
    n = r.choice([3, 4, 17, 100, 255, 256])
    while produced < goal - n:
        cmds.append("L%02x" % r.randrange(256)); produced += 1
        if goal - n - produced > 300:
            cmds.append("C%d.256" % r.randrange(0, 50)); produced += 256
    n = goal - produced
    d = 0 if exact else r.choice([0, 0, 0, 1, 2, n - 1, n, r.randrange(ring)])
    cmds.append("C%d.%d" % (max(0, min(d, ring - 1)), n)); produced += n
    for _ in range(r.choice([1, 2, 5])):
        cmds.append("L%02x" % r.randrange(256)); produced += 1
    for d in [0, 1, r.randrange(0, 8), r.randrange(0, 8), ring - 1, ring - 2]:
        k = r.randrange(3, 12)
        cmds.append("C%d.%d" % (d, k)); produced += k
        cmds.append("L%02x" % r.randrange(256)); produced += 1
    blocks = []
    for i in range(0, len(cmds), 60000):
        blocks.append(gen_block(r, meth, cmds[i:i + 60000], ("huff", "huff", r.choice(STYLES))))
    return "/".join(blocks), {"size=ring-end", "ring-end%+d" % delta, "blocks=%d" % len(blocks)}, produced


def gen_flat(r, meth):
    """a block whose code table is FLAT – the symbols 0 .. 2^k-1 all with length k, exactly 2^k codes transmitted – so that the
    temporary table that transmits it has ONE code (its 'single code' form) while the code table has many; alone, and after /
    before an ordinary block (the temporary tree of the previous block must not survive)"""
    k = r.choice([1, 2, 3, 4, 4, 5, 6, 7, 8, 8])
    syms = list(range(1 << k))
    r.shuffle(syms)
    cmds = ["L%02x" % v for v in syms] + ["L%02x" % r.randrange(1 << k) for _ in range(r.choice([0, 5, 60]))]
    temp_txt = "s%d" % tok_sym(str(k))
    code_txt = "n%d:%s" % (1 << k, ".".join([str(k)] * (1 << k)))
    off_txt = "s%d" % r.randrange(FMT[meth][2])
    flat = "%s;%s;%s;%s" % (temp_txt, code_txt, off_txt, ",".join(cmds))
    produced = len(cmds)
    blocks = []
    if r.random() < 0.6:
        c0, produced0 = gen_cmds(r, meth, r.choice([5, 40]), 0, "mixed")
        blocks.append(gen_block(r, meth, c0, ("huff", r.choice(STYLES), "huff")))
        produced += produced0
    blocks.append(flat)
    if r.random() < 0.5:
        c1, produced = gen_cmds(r, meth, r.choice([5, 40]), produced, "mixed")
        blocks.append(gen_block(r, meth, c1, (r.choice(STYLES), r.choice(STYLES), r.choice(STYLES))))
    return "/".join(blocks), {"size=flat", "temp-table=single+code-table=flat%d" % k, "blocks=%d" % len(blocks)}, produced


def gen_stream(r, meth, size_class="small"):
    """returns (description string, tags)"""
    tags = set()
    if size_class == "ringend-exact":
        return gen_ringend(r, meth, exact=True)
    if size_class == "ringend":
        return gen_ringend(r, meth)
    if size_class == "flat":
        return gen_flat(r, meth)
    if size_class == "small":
        nblocks = r.choice([1, 1, 2, 3, 5])
        sizes = [r.choice([0, 1, 2, 3, 8, 30, 200]) for _ in range(nblocks)]
    elif size_class == "medium":
        nblocks = r.choice([1, 2, 4])
        sizes = [r.choice([500, 3000, 10000]) for _ in range(nblocks)]
    elif size_class == "maxblock":
        sizes = [65535, r.choice([0, 1, 7])]
    else:  # "wrap": enough output to wrap the ring
        ring = FMT[meth][3]
        per = 200 if not FMT[meth][4] else 400
        sizes = [min(65535, ring // per + 50)] * (per // 100 + 1)
    produced = 0
    blocks = []
    for sz in sizes:
        profile = r.choice(["mixed", "mixed", "copies", "lits"]) if size_class != "wrap" else "copies"
        if size_class == "maxblock":
            profile = "sparse"
        cmds, produced = gen_cmds(r, meth, sz, produced, profile)
        styles = (r.choice(STYLES), r.choice(STYLES), r.choice(STYLES))
        if size_class in ("wrap", "maxblock"):
            styles = ("huff", "huff", r.choice(STYLES))
        for s, nm in zip(styles, "cot"):
            tags.add("%s-table=%s" % (nm, s))
        tags.add("profile=" + profile)
        blocks.append(gen_block(r, meth, cmds, styles))
    tags.add("blocks=%d" % len(blocks))
    tags.add("size=" + size_class)
    return "/".join(blocks), tags, produced
