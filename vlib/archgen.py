"""Whole-archive generators: histories for the reader op, mutated corpus archives, structured archives."""
import os
from vlib import corpus, hdrgen as G, lhaenc as E, streams as S

KINDS = ["seek", "pipe", "cbskip", "cbnoskip"]
POLICIES = ["plain", "eod", "eof"]


def legal_history(r, maxentries=9, extract_fail=0.2):
    """op sequence with at most one decode operation per member and one extract per entry"""
    toks = []
    for _ in range(r.randrange(1, maxentries + 1)):
        toks.append("n")
        k = r.random()
        if k < 0.25:
            pass
        elif k < 0.5:
            for _ in range(r.randrange(1, 4)):
                toks.append("r%d" % r.choice([0, 1, 7, 64, 1000, 100000]))
        elif k < 0.75:
            toks.append("c")
        else:
            toks.append("x0" if r.random() < extract_fail else "x1")
    return toks


def extract_history(r, maxentries=9):
    """legal history that mostly extracts (what fills the reader's directory stack and deferred list)"""
    toks = []
    for _ in range(r.randrange(1, maxentries + 1)):
        toks.append("n")
        k = r.random()
        if k < 0.65:
            toks.append("x1")
        elif k < 0.75:
            toks.append("x0")
        elif k < 0.85:
            toks.append("c")
        elif k < 0.92:
            toks.append("r%d" % r.choice([0, 7, 1000]))
    return toks


def small_archives(limit=60000, max_member=100000):
    """corpus archives that are small on disk AND whose members decode to at most `max_member` bytes"""
    from vlib import core
    big = {m["archive"] for m in corpus.members(core.lhv_path()) if m["length"] > max_member}
    return [(os.path.relpath(f, corpus.ARCH_DIR), open(f, "rb").read())
            for f in corpus.archive_files()
            if os.path.getsize(f) < limit and os.path.relpath(f, corpus.ARCH_DIR) not in big]


def mutate_archive(r, d):
    d = bytearray(d)
    for _ in range(r.choice([1, 1, 2, 4])):
        k = r.random()
        if not d:
            break
        if k < 0.35:
            d[r.randrange(len(d))] ^= 1 << r.randrange(8)
        elif k < 0.55:
            d[r.randrange(min(len(d), 64))] = r.randrange(256)      # header area
        elif k < 0.7:
            d = d[:r.randrange(len(d) + 1)]
        elif k < 0.8:
            i = r.randrange(len(d)); d[i:i] = bytes(r.randrange(256) for _ in range(r.randrange(1, 5)))
        else:
            i = r.randrange(len(d)); del d[i:i + r.randrange(1, 9)]
    return bytes(d)


def structured_archive(r, nmembers=None, consistent=0.5):
    """archive assembled from generated headers; with probability 1-consistent the length fields lie"""
    out = b""
    n = nmembers if nmembers is not None else r.randrange(1, 5)
    for _ in range(n):
        f = G.rand_fields(r)
        if f.method in (b"-lh0-", b"-lz4-", b"-pm0-"):
            data = S.rand_bytes(r, r.choice([0, 1, 10, 300]))
            f.length = len(data)
            f.crc = E.crc16(data)
        elif f.method == b"-lhd-":
            data = b""
            f.length = 0
        else:
            data = S.rand_bytes(r, r.choice([0, 3, 40, 200]))
            f.length = r.choice([0, 10, 500, 5000])
        f.clen = len(data)
        if r.random() > consistent:
            k = r.random()
            if k < 0.3:
                f.clen = r.choice([0, len(data) + 1, len(data) + 1000, 0xffffffff, 0x7fffffff])
            elif k < 0.6:
                f.length = r.choice([0, 1, 70000, 300000]) if f.method not in (b"-lh0-", b"-lz4-", b"-pm0-", b"-lhd-") else r.choice([0, 1, 0xffffffff, 0x80000000, 70000])
            elif k < 0.8:
                data = data[:r.randrange(len(data) + 1)]
        g = f.copy()
        out += E.encode(g) + data
    if r.random() < 0.5:
        out += b"\0"
    return out


def hostile_member_archive(r):
    """one or two members whose compressed data is a table-hostile / random stream for its method"""
    out = b""
    for _ in range(r.choice([1, 1, 2])):
        meth = r.choice(S.METHODS)
        if meth in S.LHNEW:
            data = S.hostile_lhnew(r, meth)
        elif meth == "pm2":
            data = S.hostile_pm2(r)
        elif meth == "pm1":
            data = S.hostile_pm1(r)
        else:
            data = S.rand_bytes(r, S.geometric_len(r, 30, 300))
        lvl = r.choice([0, 1, 2])
        name = b"f%d" % r.randrange(100)
        f = E.Fields(level=lvl, method=("-%s-" % meth).encode(), clen=len(data), length=(r.choice([10, 1000, 3000]) if meth in ("lh6", "lh7", "lhx", "lk7") else r.choice([10, 1000, 20000, 70000])),
                     crc=r.randrange(65536), os_type=r.choice([0x4d, 0x55, 0x6d, 0x20]),
                     name=name if lvl < 2 else b"", exts=[] if lvl < 2 else [(E.EXT_FILENAME, name)])
        out += E.encode(f) + data
    return out


def mac_many(r):
    """several MacLHA members (OS type 'm') whose data is too short for their declared length: below and above the 128-byte
    MacBinary probe, so that the pass-through decoder is set up, fails to set up, or is not used at all"""
    out = b""
    meth = r.choice([b"-lhx-", b"-lh7-", b"-lh5-", b"-lh0-", b"-lh1-"])
    for i in range(r.choice([1, 4, 8, 12, 24])):
        data = S.rand_bytes(r, r.choice([0, 5, 5, 60, 127, 128, 200]))
        f = E.Fields(level=r.choice([1, 2]), method=meth, clen=len(data), length=r.choice([10, 100, 127, 128, 129, 200, 5000]),
                     name=b"m%d" % i, os_type=0x6d, crc=0)
        if f.level == 2:
            f.exts = [(E.EXT_FILENAME, f.name)]
            f.name = b""
        out += E.encode(f) + data
    return out



def _member(r, path, name, method=b"-lh0-", data=b"", perms=None, level=None, os_type=0x55, time=1_000_000_000, length=None, crc=None,
            with_path_ext=True):
    """one member with a (directory path, file name) pair; level 0 carries perms in the Unix area"""
    level = r.choice([0, 1, 2]) if level is None else level
    f = E.Fields(level=level, method=method, clen=len(data), length=len(data) if length is None else length,
                 crc=E.crc16(data) if crc is None else crc, os_type=os_type, time=time)
    if level == 0:
        f.name = path + name
        f.time = E.dos_time(2001, 6, 15, 12, 0, 0)
        if perms is not None:
            f.area = bytes([0x55, 0]) + (time & 0xffffffff).to_bytes(4, "little") + (perms & 0xffff).to_bytes(2, "little") + bytes(4)
    else:
        if level == 1:
            f.time = E.dos_time(2001, 6, 15, 12, 0, 0)
        if name:
            f.exts.append((E.EXT_FILENAME, name))
        if path and with_path_ext:
            f.exts.append((E.EXT_PATH, path.replace(b"/", b"\xff")))
        if perms is not None:
            f.exts.append((E.EXT_PERM, (perms & 0xffff).to_bytes(2, "little")))
        f.common_crc = level == 2 and r.random() < 0.5
    return E.encode(f) + data


def dirkind_archive(r):
    """-lhd- entries in every combination the header parser distinguishes: permission type none / directory / SYMLINK / file,
    name with and without the 'name|target' separator, with and without a directory part, empty names; each followed by ordinary
    members with a path (what the reader's directory stack is compared against)"""
    out = b""
    for i in range(r.choice([1, 2, 3])):
        perms = r.choice([None, 0o40755, 0o120777, 0o120777, 0o100644, 0o120000])
        path = r.choice([b"", b"", b"d%d/" % i, b"d/e/"])
        name = r.choice([b"lnk", b"lnk|tgt", b"lnk|../x", b"lnk|/abs", b"|", b"|t", b"n|", b"", b"a|b|c"])
        lvl = r.choice([0, 1, 2])
        if lvl == 0 and not (path + name):
            name = b"x"
        out += _member(r, path, name, method=b"-lhd-", perms=perms, level=lvl)
        for _ in range(r.choice([0, 1, 2])):
            data = S.rand_bytes(r, r.choice([0, 5, 40]))
            out += _member(r, r.choice([b"", path, b"z/", b"d%d/sub/" % i]), b"f%d" % r.randrange(9), data=data,
                           perms=r.choice([None, 0o100644]))
    return out + (b"\0" if r.random() < 0.5 else b"")


# methods the archive signature scan accepts (-lh?-, -pm?- except -pms-) but for which the library has no decoder
ODD_METHODS = [b"-lh2-", b"-lh3-", b"-lh8-", b"-pm3-", b"-lh9-", b"-lha-", b"-pmz-"]


def odd_method_archive(r):
    """good members around one member the library cannot decode: a genuine but unsupported method (-lh2-, -lh3-, ...), or a MacLHA
    member (OS type 'm', length >= 128) whose data stops inside its first 128 decoded bytes"""
    good1 = _member(r, b"", b"first.txt", data=S.rand_bytes(r, r.choice([0, 10, 300])), level=r.choice([0, 1, 2]))
    good2 = _member(r, b"", b"last.txt", data=S.rand_bytes(r, r.choice([1, 50])), level=r.choice([0, 1, 2]))
    k = r.random()
    data = S.rand_bytes(r, r.choice([1, 20, 200]))
    if k < 0.6:
        bad = _member(r, b"", b"odd.bin", method=r.choice(ODD_METHODS), data=data, length=r.choice([len(data), 1000]), level=r.choice([0, 1, 2]))
    else:
        short = S.rand_bytes(r, r.choice([0, 1, 60, 127]))
        bad = _member(r, b"", b"mac.bin", method=b"-lh0-", data=short, length=r.choice([128, 200, 5000]), crc=r.randrange(65536),
                      level=r.choice([1, 2]), os_type=0x6d)
    parts = r.choice([[good1, bad, good2], [bad, good2], [good1, bad], [bad]])
    return b"".join(parts) + b"\0"


def prefix_dirs_archive(r):
    """sibling directories whose names are proper prefixes of one another (a/ ab/ a.bak/ lib/ lib/sub/ lib2/), directory-first"""
    base = r.choice([b"a", b"lib", b"dir"])
    sibs = [base, base + r.choice([b"b", b"2", b".bak", b"_"]), base + base]
    r.shuffle(sibs)
    out = b""
    lvl = r.choice([0, 1, 2])
    for d in sibs[:r.choice([2, 3])]:
        out += _member(r, d + b"/", b"", method=b"-lhd-", perms=r.choice([0o40755, 0o40700, None]), level=2 if lvl == 0 else lvl)
        if r.random() < 0.4:
            out += _member(r, d + b"/sub/", b"", method=b"-lhd-", perms=0o40755, level=2 if lvl == 0 else lvl)
        for j in range(r.choice([0, 1, 2])):
            out += _member(r, d + b"/", b"f%d" % j, data=S.rand_bytes(r, r.choice([0, 8])), perms=0o100644, level=lvl)
    return out + b"\0"

def decode_history(r, n=3):
    """history that decodes every member (read / check / extract)"""
    toks = []
    for _ in range(n):
        toks.append("n")
        toks.append(r.choice(["c", "x1", "r100000", "r7;r100000"]))
    return ";".join(toks).split(";")


def rdr_op(kind, policy, toks, data, fail_at=-1):
    return "rdr %s %s %d %s %s" % (kind, policy, fail_at, ";".join(toks), data.hex() or "-")


def canon_rdr(line):
    """drop the counters that are not part of the compared behaviour"""
    import re
    return re.sub(r" allocs=\d+ peak=\d+(?: fresh=\d+)?| reads=\d+ moved=\d+", "", line)


def rdr_counters(line):
    import re
    return {k: int(v) for k, v in re.findall(r"(live|allocs|peak|fresh|reads|moved)=(\d+)", line)}
