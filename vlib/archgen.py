"""Whole-archive generators: histories for the reader op, mutated corpus archives, structured archives."""
import os
from vlib import corpus, hdrgen as G, lhaenc as E, streams as S

KINDS = ["seek", "pipe", "cbskip", "cbnoskip"]
POLICIES = ["plain", "eod", "eof"]


def legal_history(r, maxentries=9, extract_fail=0.2):
    """op sequence with at most one decode operation per member and one extract per entry"""
    toks = []
    for _ in range(r.randrange(1, maxentries + 1)):
        toks.append("n")
        k = r.random()
        if k < 0.25:
            pass
        elif k < 0.5:
            for _ in range(r.randrange(1, 4)):
                toks.append("r%d" % r.choice([0, 1, 7, 64, 1000, 100000]))
        elif k < 0.75:
            toks.append("c")
        else:
            toks.append("x0" if r.random() < extract_fail else "x1")
    return toks


def small_archives(limit=60000, max_member=100000):
    """corpus archives that are small on disk AND whose members decode to at most `max_member` bytes"""
    from vlib import core
    big = {m["archive"] for m in corpus.members(core.lhv_path()) if m["length"] > max_member}
    return [(os.path.relpath(f, corpus.ARCH_DIR), open(f, "rb").read())
            for f in corpus.archive_files()
            if os.path.getsize(f) < limit and os.path.relpath(f, corpus.ARCH_DIR) not in big]


def mutate_archive(r, d):
    d = bytearray(d)
    for _ in range(r.choice([1, 1, 2, 4])):
        k = r.random()
        if not d:
            break
        if k < 0.35:
            d[r.randrange(len(d))] ^= 1 << r.randrange(8)
        elif k < 0.55:
            d[r.randrange(min(len(d), 64))] = r.randrange(256)      # header area
        elif k < 0.7:
            d = d[:r.randrange(len(d) + 1)]
        elif k < 0.8:
            i = r.randrange(len(d)); d[i:i] = bytes(r.randrange(256) for _ in range(r.randrange(1, 5)))
        else:
            i = r.randrange(len(d)); del d[i:i + r.randrange(1, 9)]
    return bytes(d)


def structured_archive(r, nmembers=None, consistent=0.5):
    """archive assembled from generated headers; with probability 1-consistent the length fields lie"""
    out = b""
    n = nmembers if nmembers is not None else r.randrange(1, 5)
    for _ in range(n):
        f = G.rand_fields(r)
        if f.method in (b"-lh0-", b"-lz4-", b"-pm0-"):
            data = S.rand_bytes(r, r.choice([0, 1, 10, 300]))
            f.length = len(data)
            f.crc = E.crc16(data)
        elif f.method == b"-lhd-":
            data = b""
            f.length = 0
        else:
            data = S.rand_bytes(r, r.choice([0, 3, 40, 200]))
            f.length = r.choice([0, 10, 500, 5000])
        f.clen = len(data)
        if r.random() > consistent:
            k = r.random()
            if k < 0.3:
                f.clen = r.choice([0, len(data) + 1, len(data) + 1000, 0xffffffff, 0x7fffffff])
            elif k < 0.6:
                f.length = r.choice([0, 1, 70000, 300000]) if f.method not in (b"-lh0-", b"-lz4-", b"-pm0-", b"-lhd-") else r.choice([0, 1, 0xffffffff, 0x80000000, 70000])
            elif k < 0.8:
                data = data[:r.randrange(len(data) + 1)]
        g = f.copy()
        out += E.encode(g) + data
    if r.random() < 0.5:
        out += b"\0"
    return out


def hostile_member_archive(r):
    """one or two members whose compressed data is a table-hostile / random stream for its method"""
    out = b""
    for _ in range(r.choice([1, 1, 2])):
        meth = r.choice(S.METHODS)
        if meth in S.LHNEW:
            data = S.hostile_lhnew(r, meth)
        elif meth == "pm2":
            data = S.hostile_pm2(r)
        elif meth == "pm1":
            data = S.hostile_pm1(r)
        else:
            data = S.rand_bytes(r, S.geometric_len(r, 30, 300))
        lvl = r.choice([0, 1, 2])
        name = b"f%d" % r.randrange(100)
        f = E.Fields(level=lvl, method=("-%s-" % meth).encode(), clen=len(data), length=(r.choice([10, 1000, 3000]) if meth in ("lh6", "lh7", "lhx", "lk7") else r.choice([10, 1000, 20000, 70000])),
                     crc=r.randrange(65536), os_type=r.choice([0x4d, 0x55, 0x6d, 0x20]),
                     name=name if lvl < 2 else b"", exts=[] if lvl < 2 else [(E.EXT_FILENAME, name)])
        out += E.encode(f) + data
    return out


def mac_many(r):
    """several MacLHA members (OS type 'm') whose data is too short for their declared length: below and above the 128-byte
    MacBinary probe, so that the pass-through decoder is set up, fails to set up, or is not used at all"""
    out = b""
    meth = r.choice([b"-lhx-", b"-lh7-", b"-lh5-", b"-lh0-", b"-lh1-"])
    for i in range(r.choice([1, 4, 8, 12, 24])):
        data = S.rand_bytes(r, r.choice([0, 5, 5, 60, 127, 128, 200]))
        f = E.Fields(level=r.choice([1, 2]), method=meth, clen=len(data), length=r.choice([10, 100, 127, 128, 129, 200, 5000]),
                     name=b"m%d" % i, os_type=0x6d, crc=0)
        if f.level == 2:
            f.exts = [(E.EXT_FILENAME, f.name)]
            f.name = b""
        out += E.encode(f) + data
    return out


def decode_history(r, n=3):
    """history that decodes every member (read / check / extract)"""
    toks = []
    for _ in range(n):
        toks.append("n")
        toks.append(r.choice(["c", "x1", "r100000", "r7;r100000"]))
    return ";".join(toks).split(";")


def rdr_op(kind, policy, toks, data, fail_at=-1):
    return "rdr %s %s %d %s %s" % (kind, policy, fail_at, ";".join(toks), data.hex() or "-")


def canon_rdr(line):
    """drop the counters that are not part of the compared behaviour"""
    import re
    return re.sub(r" allocs=\d+ peak=\d+| reads=\d+ moved=\d+", "", line)


def rdr_counters(line):
    import re
    return {k: int(v) for k, v in re.findall(r"(live|allocs|peak|reads|moved)=(\d+)", line)}
