"""Generator of typed header FIELD descriptions for C05 (encoded by the Lean spec, op hdrenc; expected result by op hdrnorm)."""
from vlib import hdrgen as G

OS_TYPES = G.OS_TYPES
METHODS = G.METHODS


def hx(b):
    return bytes(b).hex() or "-"


def rand_bytes(r, n):
    return bytes(r.randrange(256) for _ in range(n))


def name_bytes(r, maxlen, kind=None):
    kind = kind or r.choice(["lower", "upper", "mixed", "hostile", "bin"])
    n = r.choice([1, 1, 3, 8, 12, maxlen, r.randrange(1, maxlen + 1)])
    n = max(1, min(n, maxlen))
    alph = {"lower": b"abcxyz019._-", "upper": b"ABCXYZ019._-", "mixed": b"abcXYZ019._- ",
            "hostile": b"aB./\\|\xff.", "bin": bytes(range(1, 256))}[kind]
    return bytes(r.choice(alph) for _ in range(n))


def u(r, bits):
    return r.choice([0, 1, (1 << bits) - 1, 1 << (bits - 1), r.randrange(1 << bits)])


def rand_ext(r):
    k = r.randrange(13)
    tail = lambda: hx(rand_bytes(r, r.choice([0, 0, 0, 1, 5])))
    if k == 0:
        return "C" + hx(rand_bytes(r, r.choice([0, 0, 0, 1, 3])))
    if k == 1:
        return "N" + hx(name_bytes(r, r.choice([1, 12, 60, 300])))
    if k == 2:
        comps = [name_bytes(r, 6, r.choice(["lower", "upper", "mixed", "hostile"])) for _ in range(r.randrange(1, 4))]
        p = b"\xff".join(comps) + (b"\xff" if r.random() < 0.7 else b"")
        return "P" + hx(p)
    if k == 3:
        return "W%d.%d.%d.%s" % (u(r, 64), u(r, 64), u(r, 64), tail())
    if k == 4:
        return "U%d.%s" % (r.choice([0o100644, 0o40755, 0o120777, 0o100000, 0o177777, r.randrange(65536)]), tail())
    if k == 5:
        return "I%d.%d.%s" % (u(r, 16), u(r, 16), tail())
    if k == 6:
        return "G" + hx(name_bytes(r, 9, "mixed"))
    if k == 7:
        return "S" + hx(name_bytes(r, 9, "mixed"))
    if k == 8:
        return "T%d.%s" % (u(r, 32), tail())
    if k == 9:
        return "9" + hx(rand_bytes(r, r.choice([12, 12, 13, 20])))
    if k == 10:      # unknown type
        return "O%d.%s" % (r.choice([0x39, 0x3f, 0x40, 0x42, 0x7f, 0xff, 0x03, 0x55]), hx(rand_bytes(r, r.randrange(0, 9))))
    if k == 11:      # known type, too short to be decoded
        t, m = r.choice([(0x00, 2), (0x01, 1), (0x02, 1), (0x41, 24), (0x50, 2), (0x51, 4), (0x52, 1), (0x53, 1), (0x54, 4), (0xcc, 12)])
        return "O%d.%s" % (t, hx(rand_bytes(r, r.randrange(0, m))))
    return "N" + hx(name_bytes(r, 20, r.choice(["lower", "upper"])))


def rand_exts(r, want_name, want_path):
    exts = []
    if want_name:
        exts.append("N" + hx(name_bytes(r, r.choice([1, 12, 60]))))
    if want_path:
        comps = [name_bytes(r, 6, r.choice(["lower", "upper", "mixed", "hostile"])) for _ in range(r.randrange(1, 4))]
        exts.append("P" + hx(b"\xff".join(comps) + (b"\xff" if r.random() < 0.8 else b"")))
    for _ in range(r.choice([0, 1, 2, 3, 5, 9])):
        exts.append(rand_ext(r))
    if r.random() < 0.2 and exts:
        exts.append(r.choice(exts))
    r.shuffle(exts)
    return exts


def dos_time(r):
    if r.random() < 0.1:
        return r.choice([0, 1, 0xffffffff, 0x00210000])
    y, mo, d = r.randrange(1980, 2108), r.randrange(0, 16), r.randrange(0, 32)
    h, mi, s = r.randrange(0, 32), r.randrange(0, 64), r.randrange(0, 64)
    return ((y - 1980) << 25) | (mo << 21) | (d << 16) | (h << 11) | (mi << 5) | (s >> 1)


def rand_fields(r, level=None):
    """returns (description text, tags)"""
    level = r.randrange(4) if level is None else level
    method = r.choice(METHODS)
    is_dir = method == b"-lhd-"
    os_t = r.choice(OS_TYPES)
    tags = {"level=%d" % level, "os=%02x" % os_t}
    items = ["L%d" % level, "M" + method.hex(), "l%d" % u(r, 32), "a%d" % r.choice([0x20, 0x10, 0, 255]), "r%d" % u(r, 16)]
    symlink = is_dir and r.random() < 0.35
    if level <= 1:
        items.append("t%d" % dos_time(r))
        maxname = 233 - (0 if level == 0 else 3)
        nm = name_bytes(r, r.choice([1, 8, 30, 100, maxname]), r.choice(["lower", "upper", "mixed", "hostile"]))
        if is_dir and r.random() < 0.7:
            nm = nm[:maxname - 1] + b"\\"
        if symlink and level == 0:
            nm = nm[:100].replace(b"|", b"_") + b"|" + name_bytes(r, 20, "mixed")
        if level == 1 and r.random() < 0.1:
            nm = b""
        area_len = 0
        if level == 0:
            items.append("c%d" % u(r, 32))
            k = r.random()
            if k < 0.35 or symlink:
                mid = rand_bytes(r, r.choice([0, 0, 4]))
                perms = 0o120777 if symlink else r.choice([0o100644, 0o40755, 0o120777, r.randrange(65536)])
                items.append("Au%d.%d.%s.%d.%d.%d" % (r.choice([0x55, 0x4b]), u(r, 32), hx(mid), perms, u(r, 16), u(r, 16)))
                area_len = 12 + len(mid)
                tags.add("area=unix")
            elif k < 0.55:
                a = bytearray(rand_bytes(r, r.choice([22, 22, 25])))
                a[0] = 0x39; a[9] = 0xcc; a[17] = a[1]; a[18] = a[2]
                items.append("A9" + hx(a))
                area_len = len(a)
                tags.add("area=os9")
            elif k < 0.7:
                a = bytearray(rand_bytes(r, r.randrange(1, 14)))
                if a[0] in (0x55, 0x4b) and len(a) >= 12:
                    a[1] = 1
                if a[0] == 0x39 and len(a) >= 22:
                    a[9] = 0
                items.append("Ar" + hx(a))
                area_len = len(a)
                tags.add("area=raw")
            nm = nm[:max(1, 233 - area_len)]
        else:
            pad = rand_bytes(r, r.choice([0, 0, 0, 1, 4]))
            items.append("p" + hx(pad))
            nm = nm[:230 - len(pad)]
            items.append("c%d" % r.choice([0, 5, 1000, 2 ** 31, 2 ** 32 - 70000, r.randrange(2 ** 31)]))
            items.append("o%d" % os_t)
            if r.random() < 0.75:
                exts = rand_exts(r, want_name=r.random() < 0.3, want_path=r.random() < 0.4)
                if symlink:
                    exts.append("U%d.-" % 0o120777)
                    exts.append("N" + hx(name_bytes(r, 8, "mixed").replace(b"|", b"_") + b"|" + name_bytes(r, 9, "mixed")))
                if r.random() < 0.12:
                    # a level-1 extended-header CHAIN longer than 64 KiB (each header is limited to 65535 bytes, the chain is not):
                    # the skip size is a 32-bit sum
                    for _ in range(r.choice([2, 2, 3])):
                        exts.insert(r.randrange(len(exts) + 1), "O%d.%s" % (r.choice([0x3f, 0x7e, 0x40]),
                                                                              hx(bytes([r.randrange(256)]) * r.choice([30000, 32766, 32768, 40000, 65000]))))
                    tags.add("chain>=64K")
                    # the skip-size field (data + chain) is 32 bits: keep the data size small enough for the sum to fit
                    items = [("c%d" % r.choice([0, 5, 1000, 2 ** 31])) if it.startswith("c") else it for it in items]
                items.append("X" + "|".join(exts))
                tags.add("exts=%d" % min(len(exts), 6))
        items.append("n" + hx(nm))
    else:
        items.append("t%d" % u(r, 32))
        items.append("c%d" % u(r, 32))
        items.append("o%d" % os_t)
        exts = rand_exts(r, want_name=(not is_dir) or r.random() < 0.3, want_path=is_dir or r.random() < 0.5)
        if symlink:
            exts.append("U%d.-" % 0o120777)
            if r.random() < 0.5:
                exts.append("N" + hx(name_bytes(r, 8, "mixed").replace(b"|", b"_") + b"|" + name_bytes(r, 9, "mixed")))
        if level == 2 and os_t == 0x4b and not exts:
            exts.append("O66.-")
        items.append("X" + "|".join(exts))
        tags.add("exts=%d" % min(len(exts), 6))
        if any(e.startswith("C") for e in exts):
            tags.add("common-crc")
    if symlink:
        tags.add("symlink")
    if is_dir:
        tags.add("dir")
    return ";".join(items), tags
