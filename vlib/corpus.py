"""The repository's own archives as a source of real members (tie c and mutation seeds)."""
import os, glob
from vlib import core

ARCH_DIR = os.path.join(core.REPO, "test", "archives")
_cache = {}


def archive_files():
    fs = sorted(glob.glob(os.path.join(ARCH_DIR, "**", "*"), recursive=True))
    return [f for f in fs if os.path.isfile(f) and not f.endswith((".am", ".in", "Makefile", ".txt"))]


def find_first_header(d):
    """offset of the first header the way skip_sfx would find it (approximation used only to seed the walk)."""
    for i in range(0, min(len(d), 262144)):
        if d[i + 2:i + 3] == b"-" and d[i + 6:i + 7] == b"-" and d[i + 3:i + 5] in (b"lh", b"lz", b"pm"):
            return i
    return None


def members(lhv):
    """list of dicts: archive, offset, method (bytes5), length, crc, data (compressed), header dump"""
    if "members" in _cache:
        return _cache["members"]
    state = {}
    for f in archive_files():
        d = open(f, "rb").read()
        p = find_first_header(d)
        if p is not None:
            state[f] = (d, p)
    out = []
    while state:
        keys = list(state)
        ops = ["hdr " + (state[f][0][state[f][1]:state[f][1] + 70000].hex() or "-") for f in keys]
        res, _ = core.run_lines_parallel([lhv], ops)
        for f, line in zip(keys, res):
            d, pos = state[f]
            if not line.startswith("ok "):
                del state[f]
                continue
            kv = dict(t.split("=", 1) for t in line.split()[1:])
            chunk = min(70000, len(d) - pos)
            hlen = chunk - int(kv["rest"])
            clen = int(kv["clen"])
            data = d[pos + hlen: pos + hlen + clen]
            out.append({"archive": os.path.relpath(f, ARCH_DIR), "offset": pos, "hlen": hlen,
                        "method": bytes.fromhex(kv["method"]), "length": int(kv["len"]),
                        "crc": int(kv["crc"], 16), "data": data, "complete": len(data) == clen, "kv": kv})
            npos = pos + hlen + clen
            if npos >= len(d):
                del state[f]
            else:
                state[f] = (d, npos)
    _cache["members"] = out
    return out


def by_method(lhv, maxlen=None):
    m = {}
    for x in members(lhv):
        if not x["complete"] or x["method"] == b"-lhd-":
            continue
        if maxlen and len(x["data"]) > maxlen:
            continue
        m.setdefault(x["method"].decode("latin1"), []).append(x)
    return m
