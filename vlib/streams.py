"""Compressed-stream generators for the decoder-level checks (C09, C14, C13, C03...)."""
from vlib import corpus, core

METHODS_FUZZ = ["lz4", "lz5", "lzs", "lh0", "lh1", "lh4", "lh5", "lh6", "lh7", "lhx", "lk7", "pm0", "pm1", "pm2"]   # order of harness/fuzz_decoder.c
METHODS = ["lz4", "lz5", "lzs", "lh0", "lh1", "lh4", "lh5", "lh6", "lh7", "lhx", "lk7", "pm0", "pm1", "pm2"]
LHNEW = {"lh4": (4, 510), "lh5": (4, 510), "lh6": (5, 510), "lh7": (5, 510), "lhx": (5, 510), "lk7": (6, 289)}


class BitWriter:
    def __init__(self):
        self.bits = []

    def put(self, value, n):
        for i in range(n - 1, -1, -1):
            self.bits.append((value >> i) & 1)

    def bytes(self, pad=0):
        b = list(self.bits)
        while len(b) % 8:
            b.append(pad)
        out = bytearray()
        for i in range(0, len(b), 8):
            v = 0
            for x in b[i:i + 8]:
                v = (v << 1) | x
            out.append(v)
        return bytes(out)


def rand_bytes(r, n):
    return bytes(r.randrange(256) for _ in range(n))


def geometric_len(r, mean=40, cap=4000):
    return min(int(r.expovariate(1.0 / mean)), cap)


def hostile_lhnew(r, meth):
    """syntactically plausible block headers with unconstrained field values"""
    ob, ncodes = LHNEW[meth]
    w = BitWriter()
    nblocks = r.choice([1, 1, 2, 3])
    for _ in range(nblocks):
        w.put(r.choice([0, 1, 2, 5, 100, 65535, r.randrange(65536)]), 16)
        # temp table
        kind = r.random()
        if kind < 0.35:
            w.put(0, 5)
            w.put(r.choice([0, 1, 2, 2, 2, 3, 18, 31, r.randrange(32)]), 5)
        else:
            n = r.choice([1, 2, 3, 4, 6, 19, 31, r.randrange(32)])
            w.put(n, 5)
            i = 0
            while i < n:
                v = r.choice([0, 1, 1, 2, 2, 3, 3, 4, 5, 6, 7])
                w.put(v, 3)
                if v == 7:
                    for _ in range(r.choice([0, 0, 1, 2, 9, 300])):
                        w.put(1, 1)
                    w.put(0, 1)
                if i == 2:
                    k = r.randrange(4)
                    w.put(k, 2)
                    i += k
                i += 1
        # code table
        kind = r.random()
        if kind < 0.25:
            w.put(0, 9)
            w.put(r.choice([0, 65, 255, 256, 258, 400, 509, 510, 511, r.randrange(512)]), 9)
        else:
            w.put(r.choice([1, 2, 5, 50, 288, 289, 290, 509, 510, 511, r.randrange(512)]), 9)
            for _ in range(r.choice([2, 8, 40, 200])):
                w.put(r.randrange(2 ** 12), 12)
        # offset table
        kind = r.random()
        if kind < 0.3:
            w.put(0, ob)
            w.put(r.choice([0, 1, 2, 2 ** ob - 1, r.randrange(2 ** ob)]), ob)
        else:
            n = r.choice([1, 2, 2 ** ob - 1, r.randrange(2 ** ob)])
            w.put(n, ob)
            for _ in range(n):
                v = r.choice([0, 1, 2, 3, 4, 5, 7])
                w.put(v, 3)
                if v == 7:
                    for _ in range(r.choice([0, 1, 3, 8])):
                        w.put(1, 1)
                    w.put(0, 1)
        for _ in range(r.choice([1, 4, 30])):
            w.put(r.randrange(2 ** 16), 16)
    return w.bytes(r.randrange(2))


def hostile_pm2(r):
    w = BitWriter()
    w.put(r.randrange(2), 1)
    num = r.choice([0, 1, 2, 9, 10, 15, 28, 29, 30, 31, r.randrange(32)])
    minlen = r.choice([0, 0, 1, 2, 3, 7, r.randrange(8)])
    w.put(num, 5)
    w.put(minlen, 3)
    if minlen != 0:
        lb = r.choice([0, 1, 2, 3, 7])
        w.put(lb, 3)
        for _ in range(num):
            w.put(r.randrange(2 ** lb) if lb else 0, lb)
    for _ in range(r.choice([1, 3, 10, 60])):
        w.put(r.randrange(2 ** 16), 16)
    return w.bytes(r.randrange(2))


def hostile_pm1(r):
    w = BitWriter()
    w.put(r.randrange(32), 5)
    for _ in range(r.choice([1, 3, 10, 60])):
        w.put(r.randrange(2 ** 16), 16)
    return w.bytes(0)


def rand_lz5(r, ncmd=None, half_copy=False):
    """random -lz5- command stream (flag byte, 8 commands each); optionally the last copy command loses its second byte"""
    n = ncmd if ncmd is not None else r.choice([1, 2, 5, 9, 20, 100])
    cmds = []
    for _ in range(n):
        if r.random() < 0.5:
            cmds.append(("lit", r.randrange(256)))
        else:
            cmds.append(("copy", r.randrange(4096), r.randrange(3, 19)))
    if half_copy:
        cmds.append(("half", r.randrange(256)))
    out = bytearray()
    for i in range(0, len(cmds), 8):
        grp = cmds[i:i + 8]
        flag = 0
        body = bytearray()
        for j, c in enumerate(grp):
            if c[0] == "lit":
                flag |= 1 << j
                body.append(c[1])
            elif c[0] == "copy":
                body.append(c[1] & 0xff)
                body.append(((c[1] >> 4) & 0xf0) | (c[2] - 3))
            else:
                body.append(c[1])
        out.append(flag)
        out += body
    return bytes(out)


def mutate(r, d):
    d = bytearray(d)
    if not d:
        return bytes(d)
    k = r.random()
    if k < 0.4:
        i = r.randrange(len(d))
        d[i] ^= 1 << r.randrange(8)
    elif k < 0.6:
        i = r.randrange(len(d))
        d[i] = r.randrange(256)
    elif k < 0.8:
        d = d[:r.randrange(len(d) + 1)]
    else:
        i = r.randrange(len(d))
        d[i:i] = rand_bytes(r, r.randrange(1, 4))
    return bytes(d)


def schedule(r, outlen):
    k = r.random()
    if k < 0.2:
        return []
    if k < 0.35:
        return [1]
    if k < 0.5:
        return [r.choice([2, 3, 5, 7, 13, 17, 64, 1000])]
    if k < 0.6:
        return [outlen + r.randrange(1, 50)]
    n = r.randrange(1, 8)
    return [r.choice([0, 0, 1, 2, 3, 7, 16, 100, 1023, 1024, 1025, 5000]) for _ in range(n)]


def sched_str(s):
    return ",".join(map(str, s)) or "-"


def seeds(lhv, maxlen=20000):
    """real members per method (compressed data, declared length)"""
    bm = corpus.by_method(lhv, maxlen=maxlen)
    return {k[1:-1]: [(x["data"], x["length"]) for x in v] for k, v in bm.items()}


def dec_op(meth, declen, chunk, mon, sched, data):
    return "dec %s %d %d %d %s %s" % (meth, declen, chunk, mon, sched_str(sched), data.hex() or "-")


def parse_dec(line):
    """'out=.. len=.. crc=.. prog=..[ FAULT..| OVERREAD]' -> dict or None"""
    if not line.startswith("out="):
        return None
    toks = line.split()
    d = {}
    for t in toks[:4]:
        k, _, v = t.partition("=")
        d[k] = v
    d["extra"] = " ".join(toks[4:])
    return d
