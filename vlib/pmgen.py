"""Generators of well-formed -pm1- / -pm2- stream DESCRIPTIONS for C04 (serialised by the Lean spec, ops pm1ser / pm2ser)."""
from vlib.lhnewgen import huffman_lengths, limit_lengths, random_complete

INIT_ORDER = (list(range(0x20, 0x80)) + list(range(0x00, 0x20)) + list(range(0xa0, 0xe0)) +
              list(range(0x80, 0xa0)) + list(range(0xe0, 0x100)))

PM2_BYTE_CLASSES = [(0, 3), (8, 3), (16, 4), (32, 5), (64, 5), (96, 5), (128, 6), (192, 6)]
PM1_BYTE_CLASSES = [(0, 4), (16, 4), (32, 5), (64, 6), (128, 6), (192, 6)]
# classes reachable in each of the 32 pm1 trees
PM1_TREE_CLASSES = ([set(range(6))] * 17 + [{2, 3, 4}] + [set(range(5))] * 6 + [set(range(4))] * 5 +
                    [set(range(3))] + [set(range(2))] + [{0}])
PM1_TREE_ALTS = {17: {3: 2, 4: 2}}     # tree 17 offers two paths to d and e


def class_of(classes, k):
    for i, (lo, w) in enumerate(classes):
        if lo <= k < lo + (1 << w):
            return i
    return None


class Sim:
    def __init__(self, fill):
        self.out = bytearray()
        self.mtf = list(INIT_ORDER)
        self.fill = fill

    def emit(self, b):
        self.out.append(b)
        if self.mtf[0] != b:
            self.mtf.remove(b)
            self.mtf.insert(0, b)

    def copy(self, d, n):
        for _ in range(n):
            i = len(self.out) - 1 - d
            self.emit(self.out[i] if i >= 0 else self.fill)


def pick_pos(r, classes, allowed, skew):
    """a move-to-front position inside an allowed class"""
    for _ in range(50):
        k = skew()
        c = class_of(classes, k)
        if c in allowed:
            return k
    c = r.choice(sorted(allowed))
    lo, w = classes[c]
    return lo + r.randrange(1 << w)


# --------------------------------------------------------------------------- pm2

def pm2_len_code(n, alt):
    if alt:
        return 20
    if n <= 16:
        return n - 2
    if n <= 24:
        return 15
    if n <= 32:
        return 16
    if n <= 64:
        return 17
    if n <= 128:
        return 18
    return 19


def pm2_off_sym(d):
    return 0 if d < 64 else d.bit_length() - 1 - 5


def num_offsets(ph):
    return 5 if ph == 0 else 6 if ph == 1 else 7 if ph == 2 else 8


def phase_gap(ph):
    return 1024 if ph <= 1 else 2048 if ph == 2 else 4096


def complete_table(r, used, universe, maxlen, style):
    """dict sym->len, complete, covering `used` (>= 2 symbols after padding)"""
    hist = dict(used)
    tries = 0
    want = max(2, len(hist) + (r.choice([0, 0, 1, 3]) if style == "extra" else 0))
    if style == "full":           # EVERY symbol of the universe gets a code (for pm2's code table: all 29 codes present)
        for s in range(universe):
            hist.setdefault(s, 1)
    while len(hist) < want and tries < 500:
        tries += 1
        s = r.randrange(universe)
        hist.setdefault(s, 1)
    if style == "random":
        l = random_complete(r, sorted(hist), maxlen)
        if l:
            return l
    l = limit_lengths(huffman_lengths(hist), maxlen)
    if l is None:
        l = limit_lengths(huffman_lengths({s: 1 for s in hist}), maxlen)
    return l


def gen_pm2(r, target, profile):
    """returns (first, rebuilds_txt, cmds_txt, produced, tags)"""
    sim = Sim(0x20)
    tags = set()
    cmds = []
    recs = []            # (code symbol, offset symbol | None, code epoch, off epoch)
    phase, next_at = 1, 1024       # point 0 happens before the first command
    code_epoch, off_epoch = 0, 0
    epoch_phase = {0: 0}           # off epoch -> phase at which its table is sent
    code_epoch_phase = {0: 0}
    points = [(0, True)]           # (phase index, new code table?) in order
    SUBS = ["mixed", "single28", "singlebyte", "small", "singlecopy", "ten", "bytes"]
    switching = profile == "switch"      # a different sub-profile in every code-table period (single <-> multi-code tables)
    cur = r.choice(SUBS) if switching else profile
    sc_code = r.randrange(1, 20)         # the one copy class of a "singlecopy" period
    SC_LEN = {15: (17, 24), 16: (25, 32), 17: (33, 64), 18: (65, 128), 19: (129, 256)}
    skew = {"bytes": lambda: min(255, int(r.expovariate(1 / 20.0))),
            }.get(profile, lambda: r.choice([0, 1, 2, r.randrange(8), r.randrange(32), r.randrange(256)]))
    last_epoch = 0
    while len(sim.out) < target:
        if switching and code_epoch != last_epoch:
            last_epoch = code_epoch
            cur = r.choice(SUBS)
            sc_code = r.randrange(1, 20)
        bytes_only = cur == "bytes"
        small = cur == "small"         # < 10 codes: bytes + copy code 0 only
        ten = cur == "ten"             # symbols 0..9 only: exactly 10 codes, offset tree needed for the 3-byte copy
        single28 = cur == "single28"
        single_byte = cur == "singlebyte"
        single_copy = cur == "singlecopy"
        ph_now = phase - 1          # tables in force were sent at point phase-1 (or earlier for code)
        maxoff_sym = num_offsets(min(ph_now, 3)) - 1
        k = r.random()
        gap = next_at - len(sim.out)
        if single_copy:
            # every command of this period is a copy of ONE length class: a single-code table that needs an offset table
            lo, hi = SC_LEN.get(sc_code, (sc_code + 2, sc_code + 2))
            n = r.randrange(lo, hi + 1)
            d = r.randrange(1 << (maxoff_sym + 6))
            cmds.append("C%d.%d" % (d, n)); sim.copy(d, n)
            recs.append((8 + sc_code, pm2_off_sym(d), code_epoch, off_epoch))
        elif not (single28 or single_byte or small or ten) and 2 <= gap <= 256 and r.random() < 0.5:
            # land exactly on the rebuild point, or cross it by a byte or two, with a copy
            n = min(256, max(2, gap + r.choice([0, 0, 0, 1, 2, 17])))
            d = r.randrange(64) if n == 2 else r.randrange(1 << (maxoff_sym + 6))
            c = pm2_len_code(n, False)
            cmds.append("C%d.%d" % (d, n)); sim.copy(d, n)
            recs.append((8 + c, None if c == 0 else pm2_off_sym(d), code_epoch, off_epoch))
            tags.add("land-on-rebuild")
        elif ten and k < 0.4:
            n = r.choice([2, 3, 3])
            d = r.randrange(64) if n == 2 else r.randrange(1 << (maxoff_sym + 6))
            c = pm2_len_code(n, False)
            cmds.append("C%d.%d" % (d, n)); sim.copy(d, n)
            recs.append((8 + c, None if c == 0 else pm2_off_sym(d), code_epoch, off_epoch))
        elif single28:
            cmds.append("A"); sim.copy(0, 256); recs.append((28, None, code_epoch, off_epoch))
        elif single_byte or bytes_only or ten or k < (0.5 if not small else 0.7):
            allowed = {0} if single_byte else set(range(8))
            kpos = pick_pos(r, PM2_BYTE_CLASSES, allowed, skew)
            b = sim.mtf[kpos]
            cmds.append("B%02x" % b)
            sim.emit(b)
            recs.append((class_of(PM2_BYTE_CLASSES, kpos), None, code_epoch, off_epoch))
        else:
            if small:
                n, d, alt = 2, r.randrange(64), False
            else:
                kk = r.random()
                if kk < 0.1 :
                    n, d, alt = 256, 0, True
                else:
                    alt = False
                    n = r.choice([2, 3, 16, 17, 24, 25, 32, 33, 64, 65, 128, 129, 255, 256, r.randrange(2, 257), r.randrange(2, 20)])
                    lim = 1 << (maxoff_sym + 6)
                    kd = r.random()
                    if n == 2:
                        d = r.randrange(64)
                    elif kd < 0.3:
                        d = r.randrange(64)
                    elif kd < 0.5:
                        d = min(lim - 1, max(0, len(sim.out) - 1))
                    elif kd < 0.6:
                        d = min(lim - 1, len(sim.out))          # just into the space-filled window
                    elif kd < 0.7:
                        d = lim - 1 - r.randrange(3)
                    elif kd < 0.8:
                        d = min(lim - 1, (1 << r.randrange(6, 13)) - r.randrange(2))
                    else:
                        d = r.randrange(lim)
            c = pm2_len_code(n, alt)
            osym = None if (c == 0 or c == 20) else pm2_off_sym(d)
            cmds.append("A" if alt else "C%d.%d" % (d, n))
            sim.copy(d, n)
            recs.append((8 + c, osym, code_epoch, off_epoch))
        if len(sim.out) >= next_at:
            newcode = phase >= 3 and (r.random() < 0.6)
            if (single28 or single_byte) and not switching:
                newcode = phase >= 3 and r.random() < 0.3
            if switching:
                newcode = phase >= 3 and r.random() < 0.85
            points.append((phase, newcode))
            if newcode:
                code_epoch += 1
                code_epoch_phase[code_epoch] = phase
            if phase <= 3 or newcode:
                off_epoch += 1
                epoch_phase[off_epoch] = phase
            next_at += phase_gap(phase)
            phase += 1
    # tables
    code_used, off_used = {}, {}
    for cs, osym, ce, oe in recs:
        code_used.setdefault(ce, {})
        code_used[ce][cs] = code_used[ce].get(cs, 0) + 1
        if osym is not None:
            off_used.setdefault(oe, {})
            off_used[oe][osym] = off_used[oe].get(osym, 0) + 1
    code_txt = {}
    need = {}
    for ce in range(code_epoch + 1):
        used = code_used.get(ce, {})
        style = r.choice(["huff", "huff", "extra", "random", "full"])
        if style == "full":
            tags.add("code=all-29")
        if len(used) <= 1 and (r.random() < 0.7 or profile in ("single28", "singlebyte", "singlecopy", "switch") or not used):
            sym = next(iter(used)) if used else r.randrange(8)
            code_txt[ce] = "s%d" % (sym + 1)
            need[ce] = (sym + 1 >= 10) and (sym + 1 != 29)
            tags.add("code=single")
            continue
        small = bool(used) and max(used) <= 8 and profile in ("small", "switch") and (profile == "small" or r.random() < 0.5)
        ten = bool(used) and max(used) <= 9 and profile in ("ten", "switch") and not small and (profile == "ten" or r.random() < 0.5)
        universe = 9 if small else 10 if ten else 29
        lens = complete_table(r, used, universe, r.choice([8, 10, 16]), style)
        hi = max(lens) + 1
        ncodes = hi if small else r.choice([hi, hi, max(hi, 29), r.randrange(hi, 32), max(hi, 10), max(hi, 11)])
        if small:
            ncodes = min(max(hi, r.choice([hi, 9])), 9)
        if ten:
            ncodes = 10
        ll = [lens.get(i, 0) for i in range(ncodes)]
        nz = [l for l in ll if l]
        mn = min(min(nz), 7)
        mn = r.choice([mn, mn, max(1, mn - 1)]) if mn > 1 else mn
        lb = 1
        while (max(nz) - mn + 1) >= (1 << lb):
            lb += 1
        lb = min(7, r.choice([lb, lb, lb + 1]))
        if (max(nz) - mn + 1) >= (1 << lb) or lb > 7:
            return None
        code_txt[ce] = "l%d.%d:%s" % (mn, lb, ".".join(map(str, ll)))
        need[ce] = ncodes >= 10
        tags.add("code=lens")
    # offset tables per off epoch
    off_txt = {}
    for oe in range(off_epoch + 1):
        used = off_used.get(oe, {})
        no = num_offsets(min(epoch_phase[oe], 3))
        if not used:
            k = r.random()
            if k < 0.4:
                ll = [0] * no
            elif k < 0.7:
                ll = [0] * no
                ll[r.randrange(no)] = r.randrange(1, 8)
            else:
                lens = complete_table(r, {}, no, 7, "huff")
                ll = [lens.get(i, 0) for i in range(no)]
        elif len(used) == 1 and r.random() < 0.7:
            ll = [0] * no
            ll[next(iter(used))] = r.randrange(1, 8)
            tags.add("off=single")
        else:
            lens = complete_table(r, used, no, 7, r.choice(["huff", "extra", "random"]))
            if lens is None or max(lens) >= no or max(lens.values()) > 7:
                return None
            ll = [lens.get(i, 0) for i in range(no)]
            tags.add("off=lens")
        off_txt[oe] = ".".join(map(str, ll))
    # rebuild list in order of points
    rb = []
    ce, oe = -1, -1
    for ph, newcode in points:
        if ph == 0 or newcode:
            ce += 1
            ctxt = code_txt[ce]
        else:
            ctxt = "-"
        if ph <= 3 or newcode:
            oe += 1
            otxt = off_txt[oe]
        else:
            otxt = "-"
        rb.append("%s;%s" % (ctxt, otxt))
    tags.add("points=%d" % len(points))
    tags.add("profile=" + profile)
    return (r.randrange(2), "/".join(rb), ",".join(cmds) or "-", len(sim.out), tags)


# --------------------------------------------------------------------------- pm1

def gen_pm1(r, target, tree=None):
    tree = r.randrange(32) if tree is None else tree
    allowed = PM1_TREE_CLASSES[tree]
    sim = Sim(0)
    cmds = []
    tags = {"tree=%d" % tree}
    skew_kind = r.choice(["front", "wide"])
    skew = (lambda: min(255, int(r.expovariate(1 / 6.0)))) if skew_kind == "front" else (lambda: r.choice([r.randrange(16), r.randrange(64), r.randrange(256)]))

    def gen_copy():
        pos = len(sim.out)
        if pos == 0:
            return None
        k = r.random()
        if k < 0.25:
            n = 2
            d = r.randrange(min(pos, 320))
        else:
            n = r.choice([3, 5, 6, 10, 11, 14, 15, 22, 23, 84, 85, 116, 117, 244, r.randrange(3, 245), r.randrange(3, 12)])
            lim = min(pos, 10816)
            kd = r.random()
            if kd < 0.3:
                d = r.randrange(min(lim, 64))
            elif kd < 0.5:
                d = lim - 1
            elif kd < 0.7:
                d = min(lim - 1, r.choice([63, 64, 319, 320, 575, 576, 831, 832, 1087, 1088, 1599, 1600, 2623, 2624, 2879, 2880, 3135, 3136,
                                           3647, 3648, 4671, 4672, 6719, 6720, 10815]))
            else:
                d = r.randrange(lim)
        return d, n

    TH = (64, 320, 576, 832, 1088, 1600, 2624, 2880, 3136, 3648, 4672, 6720)
    landed = False
    while len(sim.out) < target:
        k = r.random()
        pos = len(sim.out)
        # steer the output position onto (or next to) a threshold, then issue a copy of the widest class available there
        nxt = [t + e for t in TH for e in (-1, 0, 1) if 3 <= t + e - pos <= 244]
        if landed:
            landed = False
            lim = min(pos, 10816)
            d = r.choice([lim - 1, lim - 1, max(0, lim - 2), r.randrange(lim)])
            n = r.choice([2, 3, 3, 7, 30]) if d < 320 else r.choice([3, 4, 9, 40])
            cmds.append("C%d.%d" % (d, n))
            sim.copy(d, n)
            tags.add("at-threshold")
            continue
        if nxt and pos > 0 and r.random() < 0.6:
            n = r.choice(nxt) - pos
            d = r.randrange(min(pos, 10816))
            cmds.append("C%d.%d" % (d, n))
            sim.copy(d, n)
            landed = True
            continue
        if k < 0.35 and len(sim.out) > 0:
            d, n = gen_copy()
            cmds.append("C%d.%d" % (d, n))
            sim.copy(d, n)
            tags.add("copy")
        else:
            bl = r.choice([1, 2, 3, 4, 10, 11, 24, 25, 88, 89, 215, 216, 216, r.randrange(1, 217), r.randrange(1, 12)])
            bs, alts = [], []
            for _ in range(bl):
                kpos = pick_pos(r, PM1_BYTE_CLASSES, allowed, skew)
                b = sim.mtf[kpos]
                c = class_of(PM1_BYTE_CLASSES, kpos)
                na = PM1_TREE_ALTS.get(tree, {}).get(c, 1)
                alts.append(r.randrange(na))
                bs.append(b)
                sim.emit(b)
            if bl == 216:
                cp = "-"
                tags.add("block216")
            else:
                d, n = gen_copy()
                cp = "%d.%d" % (d, n)
                sim.copy(d, n)
            atxt = ".".join(map(str, alts)) if any(alts) else "-"
            cmds.append("K%s:%s:%s" % (bytes(bs).hex(), atxt, cp))
            tags.add("block")
    # position thresholds crossed
    for t in (64, 320, 576, 832, 1088, 1600, 2624, 2880, 3136, 3648, 4672, 6720):
        if len(sim.out) > t:
            tags.add("past=%d" % t)
    return (tree, ",".join(cmds) or "-", len(sim.out), tags)
