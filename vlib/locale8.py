"""An 8-bit locale for the tool runs of C18: in a single-byte locale the C library's character classes call bytes 0xA0..0xFF
printable, so a sanitiser that asks the locale (isprint after setlocale) instead of comparing byte values lets them through.
The sandbox has only C / C.utf8 / POSIX installed; a minimal ISO-8859-1 LC_CTYPE is compiled with `localedef` into a directory
of the run's temp area and selected through LOCPATH + LC_ALL."""
import os, subprocess, shutil

NAME = "vv_VV"


def build(tmp):
    """returns {'LOCPATH': dir, 'LC_ALL': name, 'LANG': name} or None (with a reason string as second value)"""
    if shutil.which("localedef") is None:
        return None, "localedef not installed"
    d = os.path.join(tmp, "locale8")
    os.makedirs(d, exist_ok=True)
    cm = ["<code_set_name> ISO-8859-1", "<comment_char> %", "<escape_char> /", "<mb_cur_min> 1", "<mb_cur_max> 1", "CHARMAP"]
    cm += ["<U%04X> /x%02x" % (i, i) for i in range(256)] + ["END CHARMAP"]
    open(os.path.join(d, "l1.cm"), "w").write("\n".join(cm) + "\n")
    src = "\n".join([
        "comment_char %", "escape_char /", "LC_CTYPE",
        "upper <U0041>..<U005A>;<U00C0>..<U00D6>;<U00D8>..<U00DE>",
        "lower <U0061>..<U007A>;<U00DF>..<U00F6>;<U00F8>..<U00FF>",
        "digit <U0030>..<U0039>",
        "space <U0009>..<U000D>;<U0020>",
        "cntrl <U0000>..<U001F>;<U007F>..<U009F>",
        "punct <U0021>..<U002F>;<U003A>..<U0040>;<U005B>..<U0060>;<U007B>..<U007E>;<U00A0>..<U00BF>;<U00D7>;<U00F7>",
        "xdigit <U0030>..<U0039>;<U0041>..<U0046>;<U0061>..<U0066>",
        "blank <U0009>;<U0020>",
        "END LC_CTYPE", ""])
    open(os.path.join(d, "src"), "w").write(src)
    out = os.path.join(d, NAME)
    r = subprocess.run(["localedef", "-c", "-f", os.path.join(d, "l1.cm"), "-i", os.path.join(d, "src"), out], capture_output=True, text=True)
    if not os.path.isdir(out):
        return None, "localedef failed: " + (r.stderr or r.stdout)[-200:]
    env = {"LOCPATH": d, "LC_ALL": NAME, "LANG": NAME}
    # does the C library really classify 0xE9 as printable under it?
    import sys
    t = subprocess.run([sys.executable, "-c", "import locale,ctypes;locale.setlocale(locale.LC_ALL,'');print(ctypes.CDLL(None).isprint(0xE9)!=0)"],
                       capture_output=True, text=True, env=dict(os.environ, **env))
    if t.stdout.strip() != "True":
        return None, "the compiled locale is not picked up: " + (t.stderr or t.stdout)[-200:]
    return env, "ok"
