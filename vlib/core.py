"""Shared machinery of the lhasa verification checks.

Flow of one check (see DESIGN.md §3):
  gen (tie a)  ->  lake build lhv + Props module  ->  axiom audit
  ->  build C harness from /repo's working tree  ->  correspondence run
  ->  decide (ok | concrete violation | no-failing-input-found) -> evidence
"""
import os, sys, json, time, random, subprocess, tempfile, shutil, hashlib, re, fcntl
from collections import Counter
from concurrent.futures import ThreadPoolExecutor

VERIF = os.path.dirname(os.path.dirname(os.path.abspath(__file__)))
REPO = os.environ.get("LHASA_REPO", "/repo")
LEAN = os.path.join(VERIF, "lean")
HARNESS = os.path.join(VERIF, "harness")
JOBS = int(os.environ.get("VERIF_JOBS", str(os.cpu_count() or 4)))

ALLOWED_AXIOMS = {"propext", "Classical.choice", "Quot.sound"}
FORBIDDEN_RE = re.compile(
    r"\b(sorry|admit|native_decide|bv_decide|implemented_by)\b|^\s*axiom\s|\bunsafe\s|maxHeartbeats\s+0\b")

# lib/*.c that are templates (#included by other lib files), never compiled alone
LIB_TEMPLATES = {"bit_stream_reader.c", "lh_new_decoder.c", "pma_common.c", "tree_decode.c"}

SAN_FLAGS = ["-O1", "-g", "-fno-omit-frame-pointer",
             "-fsanitize=address,bounds,null,integer-divide-by-zero,object-size,return,unreachable,vla-bound",
             "-fno-sanitize-recover=all"]


class Case:
    """One correspondence case.
    op    : line sent to BOTH the C harness (vh) and the Lean model (lhv)
    spec  : optional line sent to lhv only; its result is what the
            specification says the C result must be
    judge : optional callable(c_out) -> None | str   (the property's own
            predicate evaluated on the implementation's result)
    tags  : set of strings for the distribution report / nontrivial rule
    """
    __slots__ = ("op", "spec", "judge", "tags", "note", "spec_judge")

    def __init__(self, op, spec=None, judge=None, tags=(), note=None, spec_judge=None):
        self.op, self.spec, self.judge, self.tags, self.note = op, spec, judge, set(tags), note
        self.spec_judge = spec_judge      # callable(c_out, spec_out) -> None | str ; default: equality


class Ctx:
    def __init__(self, prop_id, tier, seed):
        self.prop_id, self.tier, self.seed = prop_id, tier, seed
        self.rng = random.Random((seed << 8) ^ int(hashlib.sha1(prop_id.encode()).hexdigest()[:8], 16))
        self.t0 = time.time()
        self.tmp = tempfile.mkdtemp(prefix="lhv-%s-" % prop_id)
        self.log = []
        self.dist = Counter()
        self.extra = {}

    def say(self, *a):
        msg = " ".join(str(x) for x in a)
        self.log.append(msg)
        print(msg, flush=True)

    def cleanup(self):
        shutil.rmtree(self.tmp, ignore_errors=True)


# --------------------------------------------------------------------------
# Lean side

class LakeLock:
    def __enter__(self):
        self.f = open(os.path.join(LEAN, ".lake-lock"), "w")
        fcntl.flock(self.f, fcntl.LOCK_EX)
        return self

    def __exit__(self, *a):
        fcntl.flock(self.f, fcntl.LOCK_UN)
        self.f.close()


def run_gen():
    """returns (ok, message, digest)"""
    sys.path.insert(0, os.path.join(VERIF, "gen"))
    import extract
    try:
        with LakeLock():
            changed, digest = extract.main()
        return True, "regenerated Gen (changed: %s)" % (changed or "none"), digest
    except extract.GenError as e:
        return False, str(e), None


def lake_build(targets, timeout=3600):
    with LakeLock():
        r = subprocess.run(["lake", "build"] + targets, cwd=LEAN, capture_output=True, text=True,
                           timeout=timeout)
    return r.returncode == 0, (r.stdout + r.stderr)


def lhv_path():
    return os.path.join(LEAN, ".lake", "build", "bin", "lhv")


def strip_comments(src):
    # remove /- ... -/ (nested not handled beyond one level) and -- comments
    out, i, depth = [], 0, 0
    while i < len(src):
        if src.startswith("/-", i):
            depth += 1; i += 2; continue
        if depth and src.startswith("-/", i):
            depth -= 1; i += 2; continue
        if depth:
            if src[i] == "\n":
                out.append("\n")
            i += 1; continue
        if src.startswith("--", i):
            j = src.find("\n", i)
            i = len(src) if j < 0 else j
            continue
        out.append(src[i]); i += 1
    return "".join(out)


def import_cone(module):
    """All LhasaV.* modules reachable from `module` (file-level import scan)."""
    seen, todo = set(), [module]
    while todo:
        m = todo.pop()
        if m in seen or not m.startswith("LhasaV"):
            continue
        path = os.path.join(LEAN, *m.split(".")) + ".lean"
        if not os.path.exists(path):
            continue
        seen.add(m)
        with open(path) as f:
            for line in f:
                mm = re.match(r"\s*(?:public\s+)?import\s+([\w.]+)", line)
                if mm:
                    todo.append(mm.group(1))
    return sorted(seen)


def audit(prop_id, modules):
    """Returns (ok, info). Greps the import cone for forbidden constructs and runs
    `#print axioms` on every property theorem via Audit/<id>.lean."""
    info = {"forbidden": [], "theorems": {}, "non_lhasav_imports": set()}
    cone = set()
    for m in modules:
        cone.update(import_cone(m))
    for m in sorted(cone):
        path = os.path.join(LEAN, *m.split(".")) + ".lean"
        src = strip_comments(open(path).read())
        for ln, line in enumerate(src.split("\n"), 1):
            if FORBIDDEN_RE.search(line):
                info["forbidden"].append("%s:%d: %s" % (m, ln, line.strip()[:120]))
    info["cone"] = sorted(cone)
    apath = os.path.join(LEAN, "Audit", prop_id + ".lean")
    with LakeLock():
        r = subprocess.run(["lake", "env", "lean", apath], cwd=LEAN, capture_output=True, text=True)
    out = r.stdout + r.stderr
    info["audit_rc"] = r.returncode
    for m in re.finditer(r"'([^']+)' depends on axioms: \[([^\]]*)\]", out.replace("\n", " ")):
        info["theorems"][m.group(1)] = [a.strip() for a in m.group(2).split(",") if a.strip()]
    for m in re.finditer(r"'([^']+)' does not depend on any axioms", out):
        info["theorems"][m.group(1)] = []
    # every `#print axioms X` in the audit file must have produced an answer
    wanted = re.findall(r"#print axioms\s+(\S+)", strip_comments(open(apath).read()))
    info["wanted"] = wanted
    answered = {k.split(".")[-1] for k in info["theorems"]}
    info["missing"] = [w for w in wanted if w.split(".")[-1] not in answered]
    bad = {t: [a for a in ax if a not in ALLOWED_AXIOMS] for t, ax in info["theorems"].items()}
    info["bad_axioms"] = {t: a for t, a in bad.items() if a}
    ok = (r.returncode == 0 and not info["forbidden"] and not info["missing"]
          and not info["bad_axioms"] and len(info["theorems"]) > 0)
    if not ok:
        info["audit_output"] = out[-3000:]
    return ok, info


# --------------------------------------------------------------------------
# C side

def lib_sources():
    d = os.path.join(REPO, "lib")
    return sorted(f for f in os.listdir(d)
                  if f.endswith(".c") and f not in LIB_TEMPLATES and f != "lha_arch_win32.c")


def _cc(args):
    r = subprocess.run(args, capture_output=True, text=True)
    return r.returncode, r.stderr


def build_vh(ctx, features, extra_flags=(), name="vh", san_flags=None, cc="clang"):
    """Compile the harness + the library from /repo's working tree into ctx.tmp.
    `features`: harness op files to include, e.g. ["decoder", "header"].
    Library .c files that a harness file #includes textually are not compiled
    separately.  Returns (path | None, log)."""
    san = SAN_FLAGS if san_flags is None else san_flags
    bdir = os.path.join(ctx.tmp, name + "-build")
    os.makedirs(bdir, exist_ok=True)
    hfiles = ["vh.c", "ops_crc.c"] + ["ops_%s.c" % f for f in features]
    included = set()
    wrap = False
    for hf in hfiles:
        src = open(os.path.join(HARNESS, hf)).read()
        included.update(re.findall(r'#include\s+"lib/([\w]+\.c)"', src))
        included.update(re.findall(r'VH-REPLACES:\s*lib/([\w]+\.c)', src))
        if "__wrap_malloc" in src:
            wrap = True
    defs = ["-DVH_WITH_%s" % f.upper() for f in features]
    inc = ["-I", REPO, "-I", os.path.join(REPO, "lib"), "-I", os.path.join(REPO, "lib", "public"),
           "-I", os.path.join(REPO, "src"), "-I", HARNESS, "-DHAVE_CONFIG_H", "-w"]
    jobs = []
    objs = []
    for hf in hfiles:
        o = os.path.join(bdir, "h_" + hf[:-2] + ".o")
        objs.append(o)
        jobs.append([cc] + san + inc + defs + list(extra_flags) + ["-c", os.path.join(HARNESS, hf), "-o", o])
    for lf in lib_sources():
        if lf in included:
            continue
        o = os.path.join(bdir, "l_" + lf[:-2] + ".o")
        objs.append(o)
        jobs.append([cc] + san + inc + list(extra_flags) + ["-c", os.path.join(REPO, "lib", lf), "-o", o])
    with ThreadPoolExecutor(JOBS) as ex:
        res = list(ex.map(_cc, jobs))
    errs = [e for rc, e in res if rc != 0]
    if errs:
        return None, "\n".join(errs)[-4000:]
    exe = os.path.join(bdir, name)
    wl = ["-Wl,--wrap=malloc,--wrap=calloc,--wrap=realloc,--wrap=free,--wrap=strdup"] if wrap else []
    rc, err = _cc([cc] + san + [f for f in extra_flags if f.startswith("--coverage")] + wl + objs + ["-o", exe])
    if rc != 0:
        return None, err[-4000:]
    return exe, ""


SAN_ENV = {"ASAN_OPTIONS": "detect_leaks=0:abort_on_error=0:exitcode=99:allocator_may_return_null=1:detect_stack_use_after_return=0",
           "UBSAN_OPTIONS": "halt_on_error=1:exitcode=98:print_stacktrace=1"}


def summarize_crash(rc, stderr):
    m = re.search(r"SUMMARY: (\w+Sanitizer): ([\w-]+)(?: [^\n]*? in (\w+))?", stderr)
    if m:
        return "CRASH %s:%s:%s" % (m.group(1), m.group(2), m.group(3) or "?")
    m = re.search(r"runtime error: ([^\n]*)", stderr)
    if m:
        fn = re.search(r"#0 0x[0-9a-f]+ in (\w+)", stderr)
        return "CRASH ubsan:%s:%s" % (re.sub(r"[^\w]+", "-", m.group(1))[:60], fn.group(1) if fn else "?")
    if rc == -4:
        return "CRASH trap:SIGILL(-fsanitize=local-bounds / unreachable)"
    if rc < 0:
        return "CRASH signal:%d" % (-rc)
    return "CRASH rc=%d" % rc


def run_lines(cmd, lines, env=None, timeout=None, cwd=None):
    """Feed `lines` to a line-protocol process; returns list of result strings.
    A crash/timeout becomes the result of the line at which it happened and the
    process is restarted on the remaining lines."""
    outs = []
    pos = 0
    e = dict(os.environ)
    e.update(SAN_ENV)
    if env:
        e.update(env)
    crashes = []
    while pos < len(lines):
        data = "\n".join(lines[pos:]) + "\n"
        try:
            r = subprocess.run(cmd, input=data, capture_output=True, text=True, env=e,
                               timeout=timeout or (600 + len(lines)), cwd=cwd, errors="replace")
            rc, so, se = r.returncode, r.stdout, r.stderr
        except subprocess.TimeoutExpired as t:
            rc, so, se = -999, (t.stdout or b"").decode(errors="replace") if isinstance(t.stdout, bytes) else (t.stdout or ""), "harness-timeout"
        got = so.split("\n")
        if got and got[-1] == "":
            got.pop()
        complete = got
        if rc == 0 and len(complete) == len(lines) - pos:
            outs.extend(complete)
            break
        # died (or timed out) while processing line pos+len(complete)  [TIMEOUT line is printed by vh itself]
        if complete and complete[-1] == "TIMEOUT":
            outs.extend(complete)
            pos += len(complete)
            continue
        if len(complete) >= len(lines) - pos:   # non-zero exit after all output
            outs.extend(complete[:len(lines) - pos])
            break
        outs.extend(complete)
        what = "TIMEOUT" if rc == -999 else summarize_crash(rc, se)
        outs.append(what)
        crashes.append((pos + len(complete), what, se[-6000:]))
        pos += len(complete) + 1
    return outs, crashes


def run_lines_parallel(cmd, lines, env=None, jobs=None, cwd=None):
    jobs = jobs or JOBS
    if len(lines) < 4 * jobs:
        return run_lines(cmd, lines, env=env, cwd=cwd)
    # interleave so that heavy cases spread out
    chunks = [list(range(i, len(lines), jobs)) for i in range(jobs)]
    with ThreadPoolExecutor(jobs) as ex:
        res = list(ex.map(lambda idx: run_lines(cmd, [lines[i] for i in idx], env=env, cwd=cwd), chunks))
    outs = [None] * len(lines)
    crashes = []
    for idx, (o, c) in zip(chunks, res):
        for i, v in zip(idx, o):
            outs[i] = v
        for (k, what, se) in c:
            crashes.append((idx[k], what, se))
    return outs, crashes


# --------------------------------------------------------------------------
# generator quality: line coverage of the functions a property is anchored in

def anchored_functions(prop_id):
    """{function name: file} from properties.jsonl anchors.mechanism[].where ("lib/x.c: f, g; lib/y.c: h")."""
    out = {}
    for line in open(os.path.join(VERIF, "properties.jsonl")):
        if not line.strip():
            continue
        p = json.loads(line)
        if p["id"] != prop_id:
            continue
        for m in p.get("anchors", {}).get("mechanism", []):
            for part in m.get("where", "").split(";"):
                if ":" not in part:
                    continue
                f, _, names = part.partition(":")
                for n in re.findall(r"[A-Za-z_][A-Za-z0-9_]*", names):
                    if n not in ("and", "with", "ifdef", "LHARK", "the", "of", "in", "when"):
                        out[n] = f.strip()
    return out


def _gcov_dirs(bdirs, want):
    """gcov -f over every .gcda in the build directories: {function: (executed, total)} for the wanted functions"""
    res = {}
    for bdir in bdirs:
        if not bdir or not os.path.isdir(bdir):
            continue
        for o in sorted(f for f in os.listdir(bdir) if f.endswith(".gcda")):
            r = subprocess.run(["gcov", "-f", "-o", bdir, os.path.join(bdir, o[:-5] + ".o")], cwd=bdir, capture_output=True, text=True)
            fn = None
            for line in r.stdout.split("\n"):
                m = re.match(r"Function '(\w+)'", line)
                if m:
                    fn = m.group(1)
                    continue
                m = re.match(r"Lines executed:([\d.]+)% of (\d+)", line)
                if m and fn:
                    if fn in want:
                        tot = int(m.group(2))
                        ex = int(round(float(m.group(1)) * tot / 100.0))
                        old = res.get(fn)
                        if old is None or ex > old[0]:
                            res[fn] = (ex, tot)
                    fn = None
    return res


def anchor_coverage_custom(ctx, P, env, cases, max_cases=150):
    """properties with their own evaluate(): rebuild whatever they use (harness and/or the lha tool) with gcc --coverage, replay a
    sample of this run's cases through the property's own evaluation, report gcov line coverage of the anchored functions"""
    want = anchored_functions(P.ID)
    if not want or not cases:
        return None
    env2 = dict(env)
    bdirs = []
    if "vh" in env:
        feats = getattr(P, "COVERAGE_FEATURES", getattr(P, "VH_FEATURES", []))
        vh, err = build_vh(ctx, feats, extra_flags=["--coverage"], name="vhcov", san_flags=["-O0", "-g"], cc="gcc")
        if vh is None:
            return {"error": "coverage build of the harness failed: " + err[-300:]}
        env2["vh"] = vh
        bdirs.append(os.path.dirname(vh))
    if "lha" in env:
        lha, err = build_lha(ctx, name="lhacov", cc="gcc", san_flags=["-O0", "-g", "--coverage"])
        if lha is None:
            return {"error": "coverage build of the tool failed: " + err[-300:]}
        env2["lha"] = lha
        bdirs.append(os.path.dirname(lha))
    for b in bdirs:                      # the tool is also run as an unprivileged user, which must be able to write the .gcda files
        os.chmod(b, 0o777)
        for f in os.listdir(b):
            try:
                os.chmod(os.path.join(b, f), 0o666 if not os.access(os.path.join(b, f), os.X_OK) else 0o777)
            except OSError:
                pass
    os.umask(0)
    try:
        step = max(1, len(cases) // max_cases)
        sample = cases[::step][:max_cases]
        ev = getattr(P, "evaluate_own", None) or P.evaluate
        import collections
        saved = ctx.dist
        ctx.dist = collections.Counter()
        saved_extra = dict(ctx.extra)
        try:
            ev(ctx, env2, sample, False)
        finally:
            ctx.dist = saved
            ctx.extra.clear(); ctx.extra.update(saved_extra)
    finally:
        os.umask(0o022)
    res = _gcov_dirs(bdirs, want)
    rep = {"%s:%s" % (want[f], f): "%d/%d" % res[f] for f in sorted(res)}
    missing = sorted(f for f in want if f not in res)
    ex = sum(v[0] for v in res.values())
    tot = sum(v[1] for v in res.values())
    return {"functions": rep, "lines_executed": ex, "lines_total": tot, "ops_sampled": len(sample),
            "not_built": ["%s:%s" % (want[f], f) for f in missing],
            "never_executed": [k for k, v in rep.items() if v.startswith("0/")]}


def anchor_coverage(ctx, prop_id, features, ops, max_ops=600):
    """Build the harness with gcc --coverage (no sanitizers), run (a sample of) the correspondence ops through it and report
    gcov line coverage of the property's anchored functions: {function: "executed/total"} + the never-executed ones."""
    want = anchored_functions(prop_id)
    if not want or not ops:
        return None
    vh, err = build_vh(ctx, features, extra_flags=["--coverage"], name="vhcov", san_flags=["-O0", "-g"], cc="gcc")
    if vh is None:
        return {"error": "coverage build failed: " + err[-300:]}
    step = max(1, len(ops) // max_ops)
    sample = ops[::step][:max_ops]
    run_lines_parallel([vh, "20"], sample)
    bdir = os.path.dirname(vh)
    res = {}
    for o in sorted(f for f in os.listdir(bdir) if f.endswith(".gcda")):
        r = subprocess.run(["gcov", "-f", "-o", bdir, os.path.join(bdir, o[:-5] + ".o")], cwd=bdir, capture_output=True, text=True)
        fn = None
        for line in r.stdout.split("\n"):
            m = re.match(r"Function '(\w+)'", line)
            if m:
                fn = m.group(1)
                continue
            m = re.match(r"Lines executed:([\d.]+)% of (\d+)", line)
            if m and fn:
                if fn in want:
                    tot = int(m.group(2))
                    ex = int(round(float(m.group(1)) * tot / 100.0))
                    old = res.get(fn)
                    if old is None or ex > old[0]:
                        res[fn] = (ex, tot)
                fn = None
    rep = {"%s:%s" % (want[f], f): "%d/%d" % res[f] for f in sorted(res)}
    missing = sorted(f for f in want if f not in res)
    ex = sum(v[0] for v in res.values())
    tot = sum(v[1] for v in res.values())
    return {"functions": rep, "lines_executed": ex, "lines_total": tot, "ops_sampled": len(sample),
            "not_in_harness": ["%s:%s" % (want[f], f) for f in missing],
            "never_executed": [k for k, v in rep.items() if v.startswith("0/")]}


# --------------------------------------------------------------------------
# Known findings, replays, evidence

def load_known():
    p = os.path.join(VERIF, "known_findings.json")
    if not os.path.exists(p):
        return []
    return json.load(open(p)).get("findings", [])


def write_replay(prop_id, payload):
    os.makedirs(os.path.join(VERIF, "replays"), exist_ok=True)
    h = hashlib.sha1(json.dumps(payload, sort_keys=True, default=str).encode()).hexdigest()[:12]
    path = os.path.join(VERIF, "replays", "%s-%s.json" % (prop_id, h))
    with open(path, "w") as f:
        json.dump(payload, f, indent=1, default=str)
    return path


def write_evidence(ctx, level, coverage, assumptions, violations):
    edir = os.environ.get("VERIF_EVIDENCE_DIR") or os.path.join(VERIF, "evidence")
    os.makedirs(edir, exist_ok=True)
    ev = {
        "property_id": ctx.prop_id,
        "tier": ctx.tier,
        "seed": ctx.seed,
        "level": level,
        "coverage": coverage,
        "assumptions": assumptions,
        "wall_s": round(time.time() - ctx.t0, 2),
        "violations": violations,
    }
    path = os.path.join(edir, ctx.prop_id + ".json")
    with open(path, "w") as f:
        json.dump(ev, f, indent=1, default=str)
    return path


def short(s, n=160):
    s = str(s)
    return s if len(s) <= n else s[:n] + "...(%d chars)" % len(s)


# --------------------------------------------------------------------------
# the command-line tool, built from the working tree

def build_lha(ctx, sanitize=True, name="lha", extra_flags=(), wrap=(), cc="clang", san_flags=None):
    """Compile /repo/src/*.c + /repo/lib/*.c into ctx.tmp (TEST_BUILD: TEST_NOW_TIME is honoured).
    `wrap`: libc symbols to interpose with --wrap (the shim source must be given in extra_flags)."""
    bdir = os.path.join(ctx.tmp, name + "-build")
    os.makedirs(bdir, exist_ok=True)
    os.chmod(ctx.tmp, 0o755)          # the tool is also run as an unprivileged user
    san = san_flags if san_flags is not None else (SAN_FLAGS if sanitize else ["-O1", "-g"])
    inc = ["-I", REPO, "-I", os.path.join(REPO, "lib"), "-I", os.path.join(REPO, "lib", "public"),
           "-I", os.path.join(REPO, "src"), "-DHAVE_CONFIG_H", "-DTEST_BUILD", "-w"]
    srcs = [os.path.join(REPO, "lib", f) for f in lib_sources()] + \
           sorted(os.path.join(REPO, "src", f) for f in os.listdir(os.path.join(REPO, "src")) if f.endswith(".c"))
    jobs, objs = [], []
    for s in srcs:
        o = os.path.join(bdir, os.path.basename(os.path.dirname(s)) + "_" + os.path.basename(s)[:-2] + ".o")
        objs.append(o)
        jobs.append([cc] + san + inc + ["-c", s, "-o", o])
    extra_objs = []
    for x in extra_flags:
        if x.endswith(".c"):
            o = os.path.join(bdir, "x_" + os.path.basename(x)[:-2] + ".o")
            extra_objs.append(o)
            jobs.append([cc] + san + inc + ["-c", x, "-o", o])
    with ThreadPoolExecutor(JOBS) as ex:
        res = list(ex.map(_cc, jobs))
    errs = [e for rc, e in res if rc != 0]
    if errs:
        return None, "\n".join(errs)[-4000:]
    exe = os.path.join(bdir, name)
    wl = ["-Wl," + ",".join("--wrap=" + w for w in wrap)] if wrap else []
    rc, err = _cc([cc] + san + wl + objs + extra_objs + ["-o", exe])
    if rc != 0:
        return None, err[-4000:]
    return exe, ""


def run_cli(exe, args, cwd, stdin_data=None, env=None, timeout=60):
    """returns (rc, stdout bytes, stderr text, verdict) – verdict 'ok' | 'CRASH …' | 'TIMEOUT'"""
    e = dict(os.environ)
    e.update(SAN_ENV)
    e.update({"TZ": "UTC", "LC_ALL": "C"})
    if env:
        e.update(env)
    try:
        r = subprocess.run([exe] + list(args), cwd=cwd, input=stdin_data, capture_output=True, env=e, timeout=timeout)
    except subprocess.TimeoutExpired:
        return -999, b"", "", "TIMEOUT"
    se = r.stderr.decode(errors="replace")
    if r.returncode in (98, 99) or r.returncode < 0 or "Sanitizer" in se or "runtime error" in se:
        return r.returncode, r.stdout, se, summarize_crash(r.returncode, se)
    return r.returncode, r.stdout, se, "ok"


def build_vh_ro(ctx):
    """Variant of the harness in which the library is a shared object whose writable segments are
    mprotect()ed read-only at start-up: any write to a library global faults (no sanitizer here)."""
    bdir = os.path.join(ctx.tmp, "vhro-build")
    os.makedirs(bdir, exist_ok=True)
    inc = ["-I", REPO, "-I", os.path.join(REPO, "lib"), "-I", os.path.join(REPO, "lib", "public"),
           "-I", HARNESS, "-DHAVE_CONFIG_H", "-w"]
    libs = [f for f in lib_sources() if f != "lha_arch_unix.c"]
    jobs, lobjs = [], []
    for lf in libs:
        o = os.path.join(bdir, "l_" + lf[:-2] + ".o")
        lobjs.append(o)
        jobs.append(["clang", "-O1", "-g", "-fPIC"] + inc + ["-c", os.path.join(REPO, "lib", lf), "-o", o])
    hobjs = []
    for hf in ["vh.c", "ops_crc.c", "ops_reader.c"]:
        o = os.path.join(bdir, "h_" + hf[:-2] + ".o")
        hobjs.append(o)
        jobs.append(["clang", "-O1", "-g", "-DVH_RO_GLOBALS", "-DVH_NO_WRAP", "-DVH_WITH_READER"] + inc +
                    ["-c", os.path.join(HARNESS, hf), "-o", o])
    with ThreadPoolExecutor(JOBS) as ex:
        res = list(ex.map(_cc, jobs))
    errs = [e for rc, e in res if rc != 0]
    if errs:
        return None, "\n".join(errs)[-4000:]
    so = os.path.join(bdir, "liblhasa_ro.so")
    rc, err = _cc(["clang", "-shared", "-Wl,-z,now", "-Wl,-z,relro"] + lobjs + ["-o", so])
    if rc != 0:
        return None, err[-3000:]
    exe = os.path.join(bdir, "vh_ro")
    rc, err = _cc(["clang", "-rdynamic"] + hobjs + ["-L", bdir, "-llhasa_ro", "-Wl,-rpath," + bdir, "-Wl,-z,now", "-ldl", "-o", exe])
    if rc != 0:
        return None, err[-3000:]
    return exe, ""
